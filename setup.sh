#!/bin/sh
# Build the overlay venv offline: /venv's packages (torch, numpy, tensordict, gymnasium, repo deps)
# + z3-solver / cvc5 / jsonschema from the wheelhouse. /repo is put on sys.path via a .pth file so the
# checks always import the *current working tree*.
set -e
cd "$(dirname "$0")"
if [ -x .venv/bin/python ] && .venv/bin/python -c "import z3, torch, agilerl" >/dev/null 2>&1; then
  exit 0
fi
rm -rf .venv
/venv/bin/python -m venv .venv
SP=$(.venv/bin/python -c "import sysconfig;print(sysconfig.get_paths()['purelib'])")
printf "import site; site.addsitedir('/venv/lib/python3.12/site-packages')\n/repo\n" > "$SP/verif_overlay.pth"
PIP_NO_INDEX=1 .venv/bin/pip install -q --no-index --find-links /opt/veriftools/wheels z3-solver cvc5 jsonschema
.venv/bin/python -c "import z3, cvc5, torch, agilerl; print('setup ok', z3.get_version_string())"
