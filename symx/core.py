"""symx.core — proxy scalars over z3 and the re-execution path explorer.

The repository's real functions are run on these proxies.  Arithmetic builds z3 terms, a branch on
a symbolic condition (``SBool.__bool__``) asks the solver which sides are feasible and forks.

Three value modes (see symx.values.V):
  sym    inputs are fresh z3 variables (the deciding mode)
  pconst proxies/SymTensors hold exact rationals (no solver) — used to validate the proxy layer
  real   plain floats / torch tensors — the real code with no proxies (replay + validation)
"""
from __future__ import annotations

import math
import time
from fractions import Fraction

import z3
import sys as _sys
if hasattr(_sys, "set_int_max_str_digits"):
    _sys.set_int_max_str_digits(0)      # exact rational model values can have thousands of digits

# --------------------------------------------------------------------------- exceptions


class PathAbort(BaseException):
    """Infeasible path (BaseException so that `except Exception` in the code under test cannot eat it)."""


class StopRun(BaseException):
    """Raised by a capture stub to end the run of the code under test at a chosen point."""


class HarnessError(Exception):
    """Anything that makes the run inconclusive: never a pass, never a violation."""


class Unsupported(HarnessError):
    pass


class Inconclusive(HarnessError):
    pass


# --------------------------------------------------------------------------- solver calls with a hard deadline


def timed_check(solver, timeout_ms):
    """solver.check() with z3's own timeout AND a watchdog that interrupts the context: z3 does not poll its timeout inside
    some nlsat / FP loops, and a check must never hang.  An interrupted call returns `unknown` (never a verdict)."""
    import threading
    if getattr(solver, "_symx_timeout", None) != int(timeout_ms):      # re-configuring a solver is not free: only on change
        solver.set("timeout", int(timeout_ms))
        solver._symx_timeout = int(timeout_ms)
    lock, state = threading.Lock(), {"done": False}
    zctx = solver.ctx      # the timer thread must hold no reference to the solver itself: dropping the last one there would
                           # free z3 objects concurrently with the main thread (z3 contexts are not thread-safe)

    def fire():
        # interrupt only while the check is still running: a late interrupt would cancel the NEXT solver call
        with lock:
            if not state["done"]:
                zctx.interrupt()

    timer = threading.Timer(timeout_ms / 1000.0 + 3.0, fire)
    timer.daemon = True
    timer.start()
    try:
        return solver.check()
    except z3.Z3Exception:
        return z3.unknown
    finally:
        with lock:
            state["done"] = True
        timer.cancel()


# --------------------------------------------------------------------------- context


class Ctx:
    def __init__(self, solver, prefix, pending, timeout_ms):
        self.solver = solver
        self.prefix = prefix
        self.pending = pending
        self.trail = []
        self.pc = []
        self.nvars = 0
        self.names = {}
        self.queries = 0
        self.solver_s = 0.0
        self.timeout_ms = timeout_ms
        self.inputs = {}      # name -> z3 const (declared inputs, for model extraction)
        self.uf_terms = {}    # uf name -> list of (args, result) for axiom instantiation
        self.notes = []
        self.prefs = []       # z3 formulas a replay model should satisfy if it can (never part of a query that decides)
        self.model = None     # a model of the current pc (or None): saves the feasibility query of the side it satisfies

    def model_says(self, cond):
        """True/False when the cached model of pc decides cond, None without a model"""
        m = self.model
        if m is None:
            return None
        try:
            r = m.eval(cond, model_completion=True)
        except z3.Z3Exception:
            return None
        if z3.is_true(r):
            return True
        if z3.is_false(r):
            return False
        return None

    def add(self, cond):
        """Add an assumption / path-condition conjunct."""
        if isinstance(cond, Sym):
            cond = cond.z
        if cond is True:
            return
        if cond is False:
            raise PathAbort("assumption false")
        cond = z3.simplify(cond)
        if z3.is_true(cond):
            return
        if z3.is_false(cond):
            raise PathAbort("assumption false")
        self.pc.append(cond)
        self.solver.add(cond)
        if self.model is not None and self.model_says(cond) is not True:
            self.model = None

    def check(self, *extra):
        s = self.solver
        s.push()
        try:
            if extra:
                s.add(*extra)
            t0 = time.time()
            r = timed_check(s, self.timeout_ms)
            self.solver_s += time.time() - t0
            self.queries += 1
            m = s.model() if r == z3.sat else None
            if m is not None:
                self.model = m        # satisfies pc (and extra)
            return str(r), m
        finally:
            s.pop()


CTX: Ctx | None = None


def ctx() -> Ctx:
    if CTX is None:
        raise HarnessError("symbolic operation outside an exploration run")
    return CTX


def decide(cond) -> bool:
    """cond: z3 BoolRef.  Returns a Python bool, forking the path when both sides are feasible."""
    cond = z3.simplify(cond)
    if z3.is_true(cond):
        return True
    if z3.is_false(cond):
        return False
    c = ctx()
    i = len(c.trail)
    if i < len(c.prefix):
        choice = c.prefix[i]
    else:
        known = c.model_says(cond)
        if known is True:
            keep = c.model
            rf, _ = c.check(z3.Not(cond))
            c.model = keep                      # the model of the side that is taken
            choice = True
            if rf != "unsat":
                c.pending.append(c.trail + [False])
        else:
            rt, _ = c.check(cond)
            if rt == "unsat":
                choice = False                   # pc is satisfiable by construction, so the other side is
            else:
                keep = c.model if rt == "sat" else None
                rf = "sat" if known is False else c.check(z3.Not(cond))[0]
                c.model = keep
                choice = True
                if rf != "unsat":
                    # both sides feasible or unknown: explore both (unknown explored = sound for proofs)
                    c.pending.append(c.trail + [False])
    c.trail.append(choice)
    cc = cond if choice else z3.Not(cond)
    c.pc.append(cc)
    c.solver.add(cc)
    if c.model is not None and c.model_says(cc) is not True:
        c.model = None
    return choice


# --------------------------------------------------------------------------- conversions


def frac(x) -> Fraction:
    if isinstance(x, Fraction):
        return x
    if isinstance(x, bool):
        return Fraction(int(x))
    if isinstance(x, int):
        return Fraction(x)
    if isinstance(x, float):
        if math.isinf(x) or math.isnan(x):
            raise Unsupported(f"non-finite constant {x}")
        return Fraction(x)            # exact binary value of the double
    import numpy as np
    if isinstance(x, np.bool_):
        return Fraction(int(x))
    if isinstance(x, np.integer):
        return Fraction(int(x))
    if isinstance(x, np.floating):
        return Fraction(float(x))
    raise TypeError(f"frac({type(x)})")


def _is_intlike(x):
    import numpy as np
    return isinstance(x, (int, np.integer)) and not isinstance(x, (bool, np.bool_))


def _is_boollike(x):
    import numpy as np
    return isinstance(x, (bool, np.bool_))


def _is_number(x):
    import numpy as np
    return isinstance(x, (int, float, Fraction, np.integer, np.floating, np.bool_))


def zval(x):
    """Python/numpy number or Sym -> z3 term (Int for ints/bools-as-0/1, Real otherwise)."""
    if isinstance(x, Sym):
        return x.z
    if _is_boollike(x):
        return z3.BoolVal(bool(x))
    if _is_intlike(x):
        return z3.IntVal(int(x))
    if isinstance(x, Fraction) and x.denominator == 1:
        return z3.RealVal(x.numerator)
    f = frac(x)
    return z3.RealVal(f"{f.numerator}/{f.denominator}")


def zreal(x):
    z = zval(x)
    if z3.is_bool(z):
        return z3.If(z, z3.RealVal(1), z3.RealVal(0))
    if z.sort() == z3.IntSort():
        return z3.ToReal(z)
    return z


def zint(x):
    z = zval(x)
    if z3.is_bool(z):
        return z3.If(z, z3.IntVal(1), z3.IntVal(0))
    if z.sort() == z3.RealSort():
        raise Unsupported("real used where an int is required")
    return z


def zbool(x):
    z = zval(x)
    if z3.is_bool(z):
        return z
    if z.sort() == z3.IntSort():
        return z != 0
    return z != 0


def _arith_pair(a, b):
    """Coerce two operands to a common arithmetic sort."""
    za, zb = zval(a), zval(b)
    if z3.is_bool(za):
        za = z3.If(za, z3.IntVal(1), z3.IntVal(0))
    if z3.is_bool(zb):
        zb = z3.If(zb, z3.IntVal(1), z3.IntVal(0))
    if za.sort() != zb.sort():
        if za.sort() == z3.IntSort():
            za = z3.ToReal(za)
        if zb.sort() == z3.IntSort():
            zb = z3.ToReal(zb)
    return za, zb


def wrap(z):
    """z3 term -> Sym of the right class (constants stay Sym; use `conc` to lower)."""
    z = z3.simplify(z)
    if z3.is_bool(z):
        return SBool(z)
    if z.sort() == z3.IntSort():
        return SInt(z)
    return SReal(z)


def lower(z):
    """z3 term -> Python value when it is a numeral, else Sym."""
    z = z3.simplify(z)
    if z3.is_true(z):
        return True
    if z3.is_false(z):
        return False
    if z3.is_int_value(z):
        return z.as_long()
    if z3.is_rational_value(z):
        return Q(z.numerator_as_long(), z.denominator_as_long())
    return wrap(z)


# --------------------------------------------------------------------------- tensor hook

_TENSOR_TYPES = ()          # set by symx.tensor: (torch.Tensor,)
_TENSOR_BINOP = None        # set by symx.tensor: f(opname, a, b) -> tensor


def _is_tensor(o):
    return bool(_TENSOR_TYPES) and isinstance(o, _TENSOR_TYPES)


class Q(Fraction):
    """Exact rational scalar for pconst mode.  A plain Fraction cannot be an operand of a torch.Tensor
    (torch's argument parser rejects it before __torch_function__ is consulted), so the reflected
    operators are handled here."""

    def __new__(cls, *a):
        return super().__new__(cls, *a)

    def __repr__(self):
        return f"Q({self.numerator}/{self.denominator})" if self.denominator != 1 else f"Q({self.numerator})"

    def __deepcopy__(self, memo):
        return self

    def __copy__(self):
        return self


def _nice_float(x):
    """a float that is exactly a small dyadic rational (a neutral element, a half, ...): exact arithmetic keeps it exact.  Any
    other float is the rounded image of something (a power, a logarithm): arithmetic with it stays floating point, as before,
    and comparisons use the validation tolerance"""
    if not math.isfinite(x):
        return False
    f = Fraction(x)
    return f.denominator <= (1 << 20) and abs(f.numerator) <= (1 << 40)


def _q_install():
    import operator as op
    def mk2(name, fname, rev):
        base = getattr(Fraction, fname)
        def f(self, o):
            if _is_tensor(o):
                return _TENSOR_BINOP(name, o, self) if rev else _TENSOR_BINOP(name, self, o)
            if isinstance(o, Sym):
                return NotImplemented
            if type(o) is float and name != "pow" and _nice_float(o):
                o = Fraction(o)      # 0.0, 1.0, 0.5, ...: stay exact (the symbolic mode treats them the same way)
            r = base(self, o)
            if type(r) is Fraction:
                return Q(r)
            return r
        f.__name__ = fname
        return f
    for name in ("add", "sub", "mul", "truediv", "floordiv", "mod", "pow"):
        setattr(Q, f"__{name}__", mk2(name, f"__{name}__", False))
        setattr(Q, f"__r{name}__", mk2(name, f"__r{name}__", True))
    for name in ("lt", "le", "gt", "ge", "eq", "ne"):
        base = getattr(Fraction, f"__{name}__")
        def mkc(name, base):
            def f(self, o):
                if _is_tensor(o):
                    return _TENSOR_BINOP(name, self, o)
                if isinstance(o, Sym):
                    return NotImplemented
                if type(o) is float and _nice_float(o):
                    o = Fraction(o)
                return base(self, o)
            return f
        setattr(Q, f"__{name}__", mkc(name, base))
    Q.__hash__ = Fraction.__hash__
    Q.__neg__ = lambda self: Q(Fraction.__neg__(self))
    Q.__abs__ = lambda self: Q(Fraction.__abs__(self))
    Q.__pos__ = lambda self: self


_q_install()


# --------------------------------------------------------------------------- proxies


class Sym:
    __array_priority__ = 1000
    __slots__ = ("z",)

    def __init__(self, z):
        self.z = z

    def __repr__(self):
        s = str(self.z).replace("\n", " ")
        return f"<{type(self).__name__} {s[:80]}>"

    def __hash__(self):
        return hash(self.z)

    def __deepcopy__(self, memo):
        return self

    def __copy__(self):
        return self

    def __reduce__(self):
        raise Unsupported("pickling a symbolic value")


def _other_ok(o):
    return isinstance(o, Sym) or _is_number(o)


class SBool(Sym):
    __slots__ = ()

    def __bool__(self):
        return decide(self.z)

    def __and__(self, o):
        if not _other_ok(o):
            return NotImplemented
        return lower(z3.And(self.z, zbool(o)))

    def __or__(self, o):
        if not _other_ok(o):
            return NotImplemented
        return lower(z3.Or(self.z, zbool(o)))

    def __xor__(self, o):
        if not _other_ok(o):
            return NotImplemented
        return lower(z3.Xor(self.z, zbool(o)))

    def __invert__(self):
        return lower(z3.Not(self.z))

    __rand__ = __and__
    __ror__ = __or__
    __rxor__ = __xor__

    def __eq__(self, o):
        if not _other_ok(o):
            return NotImplemented
        if isinstance(o, SBool) or _is_boollike(o):
            return lower(self.z == zbool(o))
        return lower(zint(self) == zint(o)) if not isinstance(o, SReal) else lower(zreal(self) == o.z)

    def __ne__(self, o):
        r = self.__eq__(o)
        if r is NotImplemented:
            return r
        return lnot(r)

    __hash__ = Sym.__hash__

    # arithmetic on bools behaves like ints 0/1
    def _as_int(self):
        return SInt(z3.If(self.z, z3.IntVal(1), z3.IntVal(0)))

    def __add__(self, o):
        return self._as_int() + o

    def __radd__(self, o):
        return o + self._as_int()

    def __sub__(self, o):
        return self._as_int() - o

    def __rsub__(self, o):
        return o - self._as_int()

    def __mul__(self, o):
        return self._as_int() * o

    def __rmul__(self, o):
        return o * self._as_int()

    def __neg__(self):
        return -self._as_int()

    def __index__(self):
        return 1 if decide(self.z) else 0

    def __int__(self):
        return self.__index__()

    def __float__(self):
        return float(self.__index__())

    def __lt__(self, o):
        return self._as_int() < o

    def __le__(self, o):
        return self._as_int() <= o

    def __gt__(self, o):
        return self._as_int() > o

    def __ge__(self, o):
        return self._as_int() >= o


def lnot(x):
    if isinstance(x, SBool):
        return lower(z3.Not(x.z))
    return not x


def land(*xs):
    zs = []
    for x in xs:
        if isinstance(x, Sym):
            zs.append(zbool(x))
        elif not x:
            return False
    if not zs:
        return True
    return lower(z3.And(*zs))


def lor(*xs):
    zs = []
    for x in xs:
        if isinstance(x, Sym):
            zs.append(zbool(x))
        elif x:
            return True
    if not zs:
        return False
    return lower(z3.Or(*zs))


def implies(a, b):
    return lor(lnot(a), b)


def ite(c, a, b):
    """if-then-else that does not fork."""
    if not isinstance(c, Sym):
        return a if c else b
    if (isinstance(a, float) and math.isinf(a)) or (isinstance(b, float) and math.isinf(b)):
        # extended reals are not z3 terms: decide the condition (fork) and keep +-inf as a Python float
        return a if decide(zbool(c)) else b
    if not isinstance(a, Sym) and not isinstance(b, Sym) and _is_boollike(a) and _is_boollike(b):
        return lower(z3.If(c.z, z3.BoolVal(bool(a)), z3.BoolVal(bool(b))))
    za, zb = zval(a), zval(b)
    if z3.is_bool(za) and z3.is_bool(zb):
        return lower(z3.If(zbool(c), za, zb))
    za, zb = _arith_pair(a, b)
    return lower(z3.If(zbool(c), za, zb))


class SNum(Sym):
    __slots__ = ()

    def _bin(self, o, f, rev=False, name=None):
        if _is_tensor(o) and name:
            return _TENSOR_BINOP(name, o, self) if rev else _TENSOR_BINOP(name, self, o)
        if not _other_ok(o):
            return NotImplemented
        a, b = (o, self) if rev else (self, o)
        za, zb = _arith_pair(a, b)
        return lower(f(za, zb))

    def __add__(self, o):
        return self._bin(o, lambda a, b: a + b, name="add")

    def __radd__(self, o):
        return self._bin(o, lambda a, b: a + b, True, name="add")

    def __sub__(self, o):
        return self._bin(o, lambda a, b: a - b, name="sub")

    def __rsub__(self, o):
        return self._bin(o, lambda a, b: a - b, True, name="sub")

    def __mul__(self, o):
        return self._bin(o, lambda a, b: a * b, name="mul")

    def __rmul__(self, o):
        return self._bin(o, lambda a, b: a * b, True, name="mul")

    def __neg__(self):
        return lower(-self.z)

    def __pos__(self):
        return self

    def __abs__(self):
        return lower(z3.If(self.z >= 0, self.z, -self.z))

    def __truediv__(self, o):
        if _is_tensor(o):
            return _TENSOR_BINOP("truediv", self, o)
        if not _other_ok(o):
            return NotImplemented
        return lower(zreal(self) / zreal(o))

    def __rtruediv__(self, o):
        if _is_tensor(o):
            return _TENSOR_BINOP("truediv", o, self)
        if not _other_ok(o):
            return NotImplemented
        return lower(zreal(o) / zreal(self))

    def __pow__(self, n):
        return sym_pow(self, n)

    def __rpow__(self, base):
        return sym_pow(base, self)

    def _cmp(self, o, f, name=None):
        if _is_tensor(o) and name:
            return _TENSOR_BINOP(name, self, o)
        if isinstance(o, float) and math.isinf(o):
            # extended reals: a finite symbolic value against +-inf
            pos = o > 0
            return {"lt": pos, "le": pos, "gt": not pos, "ge": not pos, "eq": False, "ne": True}[name]
        if not _other_ok(o):
            return NotImplemented
        za, zb = _arith_pair(self, o)
        return lower(f(za, zb))

    def __lt__(self, o):
        return self._cmp(o, lambda a, b: a < b, name="lt")

    def __le__(self, o):
        return self._cmp(o, lambda a, b: a <= b, name="le")

    def __gt__(self, o):
        return self._cmp(o, lambda a, b: a > b, name="gt")

    def __ge__(self, o):
        return self._cmp(o, lambda a, b: a >= b, name="ge")

    def __eq__(self, o):
        if o is None:
            return False
        return self._cmp(o, lambda a, b: a == b, name="eq")

    def __ne__(self, o):
        if o is None:
            return True
        return self._cmp(o, lambda a, b: a != b, name="ne")

    __hash__ = Sym.__hash__

    def __bool__(self):
        return decide(self.z != 0)

    def __float__(self):
        raise Unsupported("float() of a symbolic value (module under test needs the `float` shim)")

    def item(self):
        return self

    def sqrt(self):       # np.sqrt on object arrays calls .sqrt()
        return uf_sqrt(self)

    def exp(self):
        return uf_apply("exp", self)

    def log(self):
        return uf_apply("log", self)

    def tanh(self):
        return uf_apply("tanh", self)


class SReal(SNum):
    __slots__ = ()

    def __floor__(self):
        return lower(z3.ToInt(self.z))

    def __ceil__(self):
        fl = z3.ToInt(self.z)
        return lower(z3.If(z3.ToReal(fl) == self.z, fl, fl + 1))

    def __trunc__(self):
        fl = z3.ToInt(self.z)
        ce = z3.If(z3.ToReal(fl) == self.z, fl, fl + 1)
        return lower(z3.If(self.z >= 0, fl, ce))

    def __floordiv__(self, o):
        if not _other_ok(o):
            return NotImplemented
        return lower(z3.ToReal(z3.ToInt(self.z / zreal(o))))

    def __rfloordiv__(self, o):
        if not _other_ok(o):
            return NotImplemented
        return lower(z3.ToReal(z3.ToInt(zreal(o) / self.z)))

    def __int__(self):
        raise Unsupported("int() of a symbolic real (module under test needs the `int` shim)")

    def __round__(self, n=None):
        raise Unsupported("round() of symbolic real")


class SInt(SNum):
    __slots__ = ()

    def __floordiv__(self, o):
        if not _other_ok(o):
            return NotImplemented
        if isinstance(o, SReal) or isinstance(o, (float, Fraction)):
            return lower(z3.ToReal(z3.ToInt(zreal(self) / zreal(o))))
        d = z3.simplify(zint(o))
        if z3.is_int_value(d) and d.as_long() > 0:
            return lower(self.z / d)       # z3 int division is floor for positive divisors
        return lower(z3.ToInt(zreal(self) / z3.ToReal(d)))

    def __rfloordiv__(self, o):
        if not _other_ok(o):
            return NotImplemented
        return lower(z3.ToInt(zreal(o) / zreal(self)))

    def __mod__(self, o):
        if not _other_ok(o):
            return NotImplemented
        if isinstance(o, SReal) or isinstance(o, (float, Fraction)):
            raise Unsupported("int % real")
        d = z3.simplify(zint(o))
        if z3.is_int_value(d) and d.as_long() > 0:
            return lower(self.z % d)
        q = z3.ToInt(zreal(self) / z3.ToReal(d))
        return lower(self.z - d * q)

    def __rmod__(self, o):
        if not _other_ok(o):
            return NotImplemented
        q = z3.ToInt(zreal(o) / zreal(self))
        return lower(zint(o) - self.z * q)

    def __floor__(self):
        return self

    def __ceil__(self):
        return self

    def __trunc__(self):
        return self

    def __index__(self):
        return concretize(self)

    def __int__(self):
        return concretize(self)

    def __hash__(self):
        # set / dict membership of an integer proxy (e.g. `idx in seen`): hashing by the term would make two different terms
        # with equal values miss each other; fork over the feasible values instead, so hash and == agree with int semantics
        try:
            return hash(concretize(self))
        except Inconclusive:
            return hash(self.z)      # too many feasible values to fork over: fall back to the term (the behaviour before round 4)

    def __round__(self, n=None):
        return self


def concretize(x, limit=64):
    """Fork over every feasible value of an integer-valued term (value enumeration by the solver)."""
    if not isinstance(x, Sym):
        return int(x)
    c = ctx()
    z = zint(x)
    n = 0
    while True:
        zs = z3.simplify(z)
        if z3.is_int_value(zs):
            return zs.as_long()
        i = len(c.trail)
        if i < len(c.prefix):
            # replaying: decisions are (z == v) for successive candidate values; we must regenerate the
            # same candidate sequence, so candidates are chosen deterministically: smallest feasible |v|
            pass
        v = _next_candidate(c, z)
        if decide(z == v):
            return v
        n += 1
        if n > limit:
            raise Inconclusive(f"concretize: more than {limit} feasible values for {z}")


def _eval_int(c, z, m, extra=()):
    """integer value of z in model m; when the model does not evaluate z to a numeral (division terms, partial models) the
    value is asked for through a fresh integer constant"""
    r = z3.simplify(m.eval(z, model_completion=True))
    if z3.is_int_value(r):
        return r.as_long()
    k = z3.Int("__concretize_value")
    r2, m2 = c.check(k == z, *extra)
    if r2 == "sat":
        r = m2.eval(k, model_completion=True)
        if z3.is_int_value(r):
            return r.as_long()
    raise Inconclusive(f"concretize: no numeral for {z} in the solver's model")


def _check_patiently(c, *extra):
    """one retry with a 4x budget (a loaded machine can push a small query over its budget)"""
    old = c.timeout_ms
    c.timeout_ms = old * 4
    try:
        return c.check(*extra)
    finally:
        c.timeout_ms = old


def _next_candidate(c, z):
    """Deterministic candidate: the minimal feasible value of z under the current pc (by bisection-free
    search: ask for a model, then tighten downwards)."""
    r, m = c.check()
    if r == "unknown":
        r, m = _check_patiently(c)
    if r != "sat":
        if r == "unsat":
            raise PathAbort("infeasible")
        raise Inconclusive("unknown while concretizing")
    v = _eval_int(c, z, m)
    # minimise to make the candidate independent of solver nondeterminism
    steps = 0
    while True:
        r2, m2 = c.check(z < v)
        if r2 == "unknown":
            r2, m2 = _check_patiently(c, z < v)
        if r2 == "sat":
            v = _eval_int(c, z, m2, (z < v,))
            steps += 1
            if steps > 200:
                raise Inconclusive(f"concretize: value of {z} unbounded below")
            continue
        if r2 == "unknown":
            raise Inconclusive("unknown while concretizing")
        return v


import numbers as _numbers
_numbers.Number.register(SNum)      # `isinstance(x, numbers.Number)` in the code under test must accept proxies
_numbers.Number.register(SBool)


# --------------------------------------------------------------------------- uninterpreted functions

_UF = {}


def _uf(name, arity):
    key = (name, arity)
    if key not in _UF:
        _UF[key] = z3.Function(name, *([z3.RealSort()] * (arity + 1)))
    return _UF[key]


_UF_CONCRETE = {
    "exp": math.exp, "log": math.log, "tanh": math.tanh, "sqrt": math.sqrt,
    "pow": lambda b, e: b ** e, "log1p": math.log1p, "softplus": lambda x: math.log1p(math.exp(x)),
}


def uf_apply(name, *args):
    """Uninterpreted real function with range/monotonicity axioms; concrete args evaluate numerically."""
    if not any(isinstance(a, Sym) for a in args):
        return _UF_CONCRETE[name](*[float(a) for a in args])
    c = ctx()
    f = _uf(name, len(args))
    zs = [zreal(a) for a in args]
    r = f(*zs)
    terms = c.uf_terms.setdefault(name, [])
    key = tuple(z.sexpr() for z in zs)
    if all(k != key for k, _, _ in terms):
        _uf_axioms(c, name, zs, r, terms)
        terms.append((key, zs, r))
    return SReal(r)


def _uf_axioms(c, name, zs, r, terms):
    ax = []
    if name == "exp":
        ax.append(r > 0)
        for _, zo, ro in terms:
            ax += [z3.Implies(zs[0] < zo[0], r < ro), z3.Implies(zs[0] > zo[0], r > ro), z3.Implies(zs[0] == zo[0], r == ro)]
        ax.append(z3.Implies(zs[0] == 0, r == 1))
    elif name == "log":
        for _, zo, ro in terms:
            ax += [z3.Implies(z3.And(zs[0] > 0, zo[0] > 0, zs[0] < zo[0]), r < ro),
                   z3.Implies(z3.And(zs[0] > 0, zo[0] > 0, zs[0] > zo[0]), r > ro)]
        ax.append(z3.Implies(zs[0] == 1, r == 0))
    elif name == "tanh":
        ax += [r > -1, r < 1, z3.Implies(zs[0] == 0, r == 0), z3.Implies(zs[0] > 0, r > 0), z3.Implies(zs[0] < 0, r < 0)]
        for _, zo, ro in terms:
            ax += [z3.Implies(zs[0] < zo[0], r < ro), z3.Implies(zs[0] > zo[0], r > ro)]
    elif name == "sqrt":
        ax += [z3.Implies(zs[0] >= 0, z3.And(r >= 0, r * r == zs[0]))]
    elif name == "pow":
        b, e = zs
        ax += [z3.Implies(b > 0, r > 0), z3.Implies(e == 0, r == 1), z3.Implies(e == 1, r == b), z3.Implies(b == 1, r == 1)]
        for _, zo, ro in terms:
            bo, eo = zo
            # same exponent: strictly monotone in the base (increasing for e>0, decreasing for e<0)
            ax += [z3.Implies(z3.And(e == eo, e > 0, b > 0, bo > 0, b < bo), r < ro),
                   z3.Implies(z3.And(e == eo, e > 0, b > 0, bo > 0, b > bo), r > ro),
                   z3.Implies(z3.And(e == eo, e < 0, b > 0, bo > 0, b < bo), r > ro),
                   z3.Implies(z3.And(e == eo, e < 0, b > 0, bo > 0, b > bo), r < ro),
                   z3.Implies(z3.And(e == eo, b == bo), r == ro)]
    for a in ax:
        c.add(a)


def uf_sqrt(x):
    return uf_apply("sqrt", x)


def sym_pow(base, n):
    if isinstance(n, Sym):
        zs = z3.simplify(n.z)
        if z3.is_int_value(zs):
            n = zs.as_long()
        elif z3.is_rational_value(zs):
            n = Fraction(zs.numerator_as_long(), zs.denominator_as_long())
    if not isinstance(n, Sym) and not isinstance(base, Sym):
        return base ** n
    if _is_intlike(n) or (isinstance(n, (float, Fraction)) and float(n).is_integer()):
        k = int(n)
        if k == 0:
            return 1
        neg = k < 0
        k = abs(k)
        r = base
        for _ in range(k - 1):
            r = r * base
        return 1 / r if neg else r
    return uf_apply("pow", base, n)


# --------------------------------------------------------------------------- fresh inputs


def fresh_name(name):
    c = ctx()
    k = c.names.get(name, 0)
    c.names[name] = k + 1
    return name if k == 0 else f"{name}#{k}"


def new_real(name):
    c = ctx()
    name = fresh_name(name)
    z = z3.Real(name)
    c.inputs[name] = z
    return SReal(z)


def new_int(name):
    c = ctx()
    name = fresh_name(name)
    z = z3.Int(name)
    c.inputs[name] = z
    return SInt(z)


def new_bool(name):
    c = ctx()
    name = fresh_name(name)
    z = z3.Bool(name)
    c.inputs[name] = z
    return SBool(z)
