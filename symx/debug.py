"""python -m symx.debug <pid> <case-substring> [mode] — run one case in-process (first path / a concrete mode)."""
import sys, os, time, warnings, json
warnings.filterwarnings("ignore")
sys.path.insert(0, os.path.dirname(os.path.dirname(os.path.abspath(__file__))))
import importlib, z3
from harness.registry import MODULES
from symx import explore, core

def main():
    pid, sub = sys.argv[1], sys.argv[2]
    mode = sys.argv[3] if len(sys.argv) > 3 else "sym"
    tier = os.environ.get("VERIF_TIER", "quick")
    mod = importlib.import_module(MODULES[pid])
    cs = [c for c in mod.cases(tier) if sub in c.name]
    print("cases:", [c.name for c in cs])
    opts = {"timeout_ms": 30000, "seed": 0, "profile": False, "fail_fast": True}
    for c in cs:
        t0 = time.time()
        if mode == "sym":
            maxp = int(os.environ.get("MAXP", "50"))
            solver = z3.Solver(); solver.set("timeout", opts["timeout_ms"])
            pending = [[]]; n = 0
            while pending and n < maxp:
                p = pending.pop()
                r = explore.run_path(c, p, solver, pending, opts)
                n += 1
                bad = [o for o in r["obligations"] if o["verdict"] != "unsat" and o["expect"] == "unsat"]
                print(f"  path {n} status={r['status']} dec={len(r.get('trail',[]))} obl={len(r['obligations'])} bad={[(o['name'], o['verdict']) for o in bad][:6]} q={r['queries']} solver_s={r['solver_s']:.2f} run_s={r['run_s']:.2f}")
                if os.environ.get("SHOWOBL"):
                    for o in r["obligations"]: print("     ", o["name"], o["verdict"], o.get("how"), o.get("seconds"), o["expect"])
                for e in r["errors"]: print("   ERROR:", e)
                for vv in r["violations"]:
                    print("   VIOLATION:", vv["ob"], vv["site"], vv.get("why"), json.dumps(vv["model"])[:200])
                    if vv.get("sym_exc"): print(vv["sym_exc"]["tb"]); print(vv["replay"])
            print(f"{c.name}: {n} paths, pending {len(pending)}, {time.time()-t0:.1f}s")
        else:
            model = {}
            if len(sys.argv) > 4:
                model = explore.model_from_json(json.load(open(sys.argv[4]))["model"])
            rr = explore.concrete_run(c, model, mode)
            print(rr["obs"], rr["assumption_failed"]); 
            if rr["exc"]: print(rr["exc"]["tb"])
main()
