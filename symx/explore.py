"""symx.explore — path exploration by re-execution, obligation discharge, replay, validation."""
from __future__ import annotations

import importlib
import json
import os
import random
import sys
import time
import traceback
from fractions import Fraction

import z3

from . import core
from .case import Case, Ob
from .core import HarnessError, Inconclusive, PathAbort, StopRun, Sym, Unsupported
from .values import V, AssumptionFailed, truth

REPO = os.environ.get("VERIF_REPO", "/repo")
VERIF = os.path.dirname(os.path.dirname(os.path.abspath(__file__)))

# ---------------------------------------------------------------------------- blame


def blame(tb):
    """Who raised?  innermost frame that belongs to the repository or to the harness decides.
    symx/tensor.py and symx/core.py play the role of torch/numpy/python (library) and are transparent."""
    frames = traceback.extract_tb(tb)
    for fr in reversed(frames):
        fn = os.path.abspath(fr.filename)
        if fn.startswith(REPO + os.sep):
            return ("repo", fr.name, os.path.relpath(fn, REPO), fr.lineno)
        if fn.startswith(VERIF + os.sep):
            base = os.path.relpath(fn, VERIF)
            if base in ("symx/tensor.py", "symx/core.py"):
                continue
            return ("harness", fr.name, base, fr.lineno)
    return ("unknown", "?", "?", 0)


# ---------------------------------------------------------------------------- models


def _zval_to_py(zv):
    if z3.is_true(zv):
        return True
    if z3.is_false(zv):
        return False
    if z3.is_int_value(zv):
        return zv.as_long()
    if z3.is_rational_value(zv):
        return Fraction(zv.numerator_as_long(), zv.denominator_as_long())
    if z3.is_fp_value(zv):
        from .fp import to_float
        return to_float(zv)
    if z3.is_algebraic_value(zv):
        a = zv.approx(20)
        return Fraction(a.numerator_as_long(), a.denominator_as_long())
    return None


def extract_model(c, m):
    out = {}
    for name, zc in c.inputs.items():
        v = _zval_to_py(m.eval(zc, model_completion=True))
        if v is None:
            v = 0
        out[name] = v
    return out


def nice_model(c, extra=(), seed=0, budget_ms=4000):
    """A model of pc ∧ extra that prefers small dyadic values (exactly representable in float32, so that
    the concrete replay is not blurred by rounding)."""
    s = c.solver
    reals = [z for z in c.inputs.values() if z.sort() == z3.RealSort()]
    ints = [z for z in c.inputs.values() if z.sort() == z3.IntSort()]
    attempts = []
    grid = [z3.And(z >= -4, z <= 4, z3.IsInt(z * 8)) for z in reals] + [z3.And(z >= -16, z <= 16) for z in ints]
    box = [z3.And(z >= -64, z <= 64) for z in reals]
    attempts = [grid, box, []]
    prefs = list(getattr(c, "prefs", ()))
    if prefs:
        attempts = [grid + prefs, box + prefs] + attempts
    old = c.timeout_ms
    for i, att in enumerate(attempts):
        s.push()
        try:
            s.add(*extra)
            if att:
                s.add(*att)
            t0 = time.time()
            r = core.timed_check(s, budget_ms if i < len(attempts) - 1 else max(old, budget_ms))
            c.solver_s += time.time() - t0
            c.queries += 1
            if r == z3.sat:
                return extract_model(c, s.model())
        finally:
            s.pop()
            s.set("timeout", old)
    return None


def model_jsonable(model):
    out = {}
    for k, v in model.items():
        if isinstance(v, float):
            out[k] = {"double": v.hex()}
        elif isinstance(v, Fraction):
            out[k] = [v.numerator, v.denominator] if v.denominator != 1 else v.numerator
        else:
            out[k] = v
    return out


def model_from_json(d):
    out = {}
    for k, v in d.items():
        if isinstance(v, dict) and "double" in v:
            out[k] = float.fromhex(v["double"])
        else:
            out[k] = Fraction(v[0], v[1]) if isinstance(v, list) else v
    return out


# ---------------------------------------------------------------------------- concrete runs


def concrete_run(case: Case, model, mode):
    """Run the harness with concrete inputs: mode 'real' = the real code on plain tensors/floats;
    'pconst' = the same proxies as the symbolic run, holding exact numbers."""
    import torch
    v = V(mode, model, float_dtype=case.float_dtype or torch.float32)
    res = {"mode": mode, "obs": {}, "observables": {}, "exc": None, "assumption_failed": None, "sites": {}}
    saved = core.CTX
    core.CTX = None
    try:
        obs = case.run(v)
        for ob in obs:
            res["obs"][ob.name] = truth(ob.cond) if ob.expect == "unsat" else None
            res["sites"][ob.name] = ob.site
            if ob.obs is not None:
                res["observables"][ob.name] = [float(x) if not isinstance(x, bool) else x for x in ob.obs]
    except AssumptionFailed as ex:
        res["assumption_failed"] = str(ex)
    except (PathAbort, StopRun) as ex:
        res["exc"] = {"type": type(ex).__name__, "blame": ("harness", "?", "?", 0), "msg": str(ex), "tb": ""}
    except HarnessError as ex:
        res["exc"] = {"type": type(ex).__name__, "blame": ("harness", "?", "?", 0), "msg": str(ex),
                      "tb": traceback.format_exc()}
    except Exception as ex:   # noqa: BLE001
        if case.allowed_exceptions and isinstance(ex, tuple(case.allowed_exceptions)):
            res["allowed_exc"] = type(ex).__name__
        else:
            res["exc"] = {"type": type(ex).__name__, "blame": blame(ex.__traceback__), "msg": str(ex)[:500],
                          "tb": traceback.format_exc()[-3000:]}
    finally:
        core.CTX = saved
    return res


# ---------------------------------------------------------------------------- one path


class PathResult(dict):
    pass


def _witness_by_evaluation(c, neg, seed, tries=40):
    """Cheap search for a witness of pc ∧ neg: evaluate both under random small dyadic assignments.  A witness
    found this way is a genuine model (it is then replayed like any other); finding none proves nothing."""
    rng = random.Random(seed * 7919 + len(c.pc))
    consts = list(c.inputs.values())
    if not consts:
        return None
    pcs = z3.And(*c.pc) if c.pc else z3.BoolVal(True)
    for k in range(tries):
        subs = []
        for zc in consts:
            if zc.sort() == z3.RealSort():
                subs.append((zc, z3.RealVal(f"{rng.randint(-8, 8)}/4")))
            elif zc.sort() == z3.IntSort():
                subs.append((zc, z3.IntVal(rng.choice([0, 1] * 12 + [2, 3, -1]))))
            else:
                subs.append((zc, z3.BoolVal(rng.random() < 0.5)))
        try:
            if not z3.is_true(z3.simplify(z3.substitute(pcs, *subs))):
                continue
            if z3.is_true(z3.simplify(z3.substitute(neg, *subs))):
                m = {}
                for zc, zv in subs:
                    m[str(zc)] = _zval_to_py(zv)
                return m
        except z3.Z3Exception:
            return None
    return None


def _has_uf(e, _cache={}):
    """does the z3 expression contain an application of an uninterpreted function (arity >= 1)?"""
    seen, stack = set(), [e]
    while stack:
        x = stack.pop()
        if x.get_id() in seen:
            continue
        seen.add(x.get_id())
        if z3.is_app(x):
            d = x.decl()
            if d.kind() == z3.Z3_OP_UNINTERPRETED and x.num_args() > 0:
                return True
            stack.extend(x.children())
    return False


def _consts(e):
    """names of the uninterpreted constants occurring in a z3 expression"""
    out, seen, stack = set(), set(), [e]
    while stack:
        x = stack.pop()
        if x.get_id() in seen:
            continue
        seen.add(x.get_id())
        if z3.is_app(x):
            if x.num_args() == 0 and x.decl().kind() == z3.Z3_OP_UNINTERPRETED:
                out.add(x.decl().name())
            stack.extend(x.children())
    return out


def _final_check(c, neg, timeout_ms, quick_only=False):
    """Decide pc ∧ neg.  A fresh (non-incremental) solver first — it lets z3 preprocess and pick nlsat for
    polynomial arithmetic; then the incremental solver, then an explicit nlsat pipeline.  unknown is never success."""
    def fresh(solver, tag, tmo):
        solver.add(*c.pc)
        solver.add(neg)
        t0 = time.time()
        r = core.timed_check(solver, tmo)
        c.solver_s += time.time() - t0
        c.queries += 1
        if r == z3.sat:
            return "sat", solver.model(), tag
        if r == z3.unsat:
            return "unsat", None, tag
        return None
    if c.uf_terms and not quick_only and not _has_uf(neg):
        # the path condition carries uninterpreted-function axioms (sqrt, exp, ...) that the obligation does not mention:
        # a short attempt without any hypotheses usually settles pure identities at once (sound for a proof)
        s0 = z3.Solver()
        s0.add(neg)
        t0 = time.time()
        r0 = core.timed_check(s0, 3000)
        c.solver_s += time.time() - t0
        c.queries += 1
        if r0 == z3.unsat:
            return "unsat", None, "z3-fresh-no-hypotheses"
    res = fresh(z3.Solver(), "z3-fresh", max(timeout_ms // 3, 2000) if not quick_only else timeout_ms)
    if res:
        return res
    if quick_only:
        return "unknown", None, "z3"
    # The full query was inconclusive.  Weaker hypotheses: if the obligation contains no uninterpreted function, try to prove it from the path
    # conjuncts that contain none either (dropping hypotheses is sound for a proof; a `sat` here is NOT a verdict).
    if not _has_uf(neg):
        slim = [p for p in c.pc if not _has_uf(p)]
        # ... and only those connected to the obligation through shared symbols (relevance closure)
        want = _consts(neg)
        pool = [(p, _consts(p)) for p in slim]
        changed = True
        keep = []
        while changed:
            changed = False
            rest = []
            for p, cs in pool:
                if cs & want:
                    keep.append(p)
                    want |= cs
                    changed = True
                else:
                    rest.append((p, cs))
            pool = rest
        slim = keep
        for hyps, tag, tmo in (([], "z3-fresh-no-hypotheses", max(timeout_ms // 3, 3000)), (slim, "z3-fresh-without-UF-hypotheses", max(timeout_ms // 3, 2000))):
            if len(hyps) >= len(c.pc):
                continue
            s0 = z3.Solver()
            s0.add(*hyps)
            s0.add(neg)
            t0 = time.time()
            r0 = core.timed_check(s0, tmo)
            c.solver_s += time.time() - t0
            c.queries += 1
            if r0 == z3.unsat:
                return "unsat", None, tag
    r, m = c.check(neg)
    if r != "unknown":
        return r, m, "z3-incremental"
    try:
        res = fresh(z3.Then("simplify", "purify-arith", "qfnra-nlsat").solver(), "z3-nlsat", timeout_ms)
        if res:
            return res
    except z3.Z3Exception:
        pass
    return "unknown", None, "z3"


class PathTimeout(BaseException):
    """the code under test ran longer than the per-path budget (BaseException: `except Exception` cannot eat it)"""


def _alarm(seconds):
    import signal
    import threading
    if threading.current_thread() is not threading.main_thread() or not hasattr(signal, "SIGALRM"):
        return

    def handler(signum, frame):
        raise PathTimeout(f"path exceeded its wall-clock budget")
    if seconds:
        signal.signal(signal.SIGALRM, handler)
    signal.alarm(seconds)


def run_path(case: Case, prefix, solver, pending, opts, profile=False):
    import torch
    timeout_ms = opts["timeout_ms"]
    solver.push()
    c = core.Ctx(solver, prefix, pending, timeout_ms)
    core.CTX = c
    out = PathResult(prefix=list(prefix), status="ok", obligations=[], violations=[], errors=[], executed=None)
    executed = set()

    def prof(frame, event, arg):
        if event == "call":
            fn = frame.f_code.co_filename
            if fn.startswith(REPO + os.sep):
                executed.add(os.path.relpath(fn, REPO) + ":" + getattr(frame.f_code, "co_qualname", frame.f_code.co_name))

    v = V("sym", float_dtype=case.float_dtype or torch.float32)
    exc_info = None
    obs = []
    t_run = time.time()
    try:
        if profile:
            sys.setprofile(prof)
        _alarm(int(opts.get("path_timeout_s", 900)))
        try:
            obs = case.run(v)
        finally:
            _alarm(0)
            if profile:
                sys.setprofile(None)
    except PathTimeout as ex:
        out["status"] = "error"
        out["errors"].append(f"PathTimeout: {ex} (a loop of the code under test does not terminate on this path, or the path is too expensive)")
    except PathAbort:
        out["status"] = "infeasible"
    except StopRun:
        out["status"] = "error"
        out["errors"].append("StopRun escaped the harness")
    except HarnessError as ex:
        out["status"] = "error"
        out["errors"].append(f"{type(ex).__name__}: {ex}\n{traceback.format_exc()[-2500:]}")
    except z3.Z3Exception as ex:
        out["status"] = "error"
        out["errors"].append(f"Z3Exception: {ex}\n{traceback.format_exc()[-2500:]}")
    except Exception as ex:   # noqa: BLE001
        if case.allowed_exceptions and isinstance(ex, tuple(case.allowed_exceptions)):
            out["status"] = "allowed-exception"
            out["allowed_exc"] = type(ex).__name__
        else:
            exc_info = {"type": type(ex).__name__, "blame": blame(ex.__traceback__), "msg": str(ex)[:500],
                        "tb": traceback.format_exc()[-3000:]}
    out["run_s"] = time.time() - t_run
    out["trail"] = list(c.trail)
    if profile:
        out["executed"] = sorted(executed)
    try:
        if out["status"] in ("ok", "allowed-exception") or exc_info:
            # vacuity guard: the path condition together with all assumptions must be satisfiable
            r, m = c.check()
            if r == "unknown":
                # a loaded machine can push a query over its budget: one retry with a 4x budget before giving up
                old = c.timeout_ms
                c.timeout_ms = old * 4
                try:
                    r, m = c.check()
                finally:
                    c.timeout_ms = old
            if r == "unsat":
                out["status"] = "infeasible"
            elif r == "unknown":
                out["status"] = "error"
                out["errors"].append("path condition satisfiability unknown")
            else:
                out["pc_model"] = model_jsonable(extract_model(c, m))
        if out["status"] == "ok" and exc_info:
            _handle_exception(case, c, exc_info, out, opts)
        elif out["status"] == "ok":
            for ob in obs:
                _discharge(case, c, ob, out, opts)
                if out["status"] == "error":
                    break
    except HarnessError as ex:
        out["status"] = "error"
        out["errors"].append(f"{type(ex).__name__}: {ex}\n{traceback.format_exc()[-2500:]}")
    finally:
        out["queries"] = c.queries
        out["solver_s"] = c.solver_s
        out["n_inputs"] = len(c.inputs)
        out["assumptions"] = list(dict.fromkeys(v.assumptions))
        core.CTX = None
        solver.pop()
    return out


def _handle_exception(case, c, exc_info, out, opts):
    model = nice_model(c, (), seed=opts.get("seed", 0))
    if model is None:
        out["status"] = "error"
        out["errors"].append("exception path without a model")
        return
    rr = concrete_run(case, model, "real")
    rec = {"ob": "no-exception", "kind": "exception", "sym_exc": exc_info, "model": model_jsonable(model),
           "replay": _replay_summary(rr)}
    rex = rr["exc"]
    if rex and rex["blame"][0] == "repo" and not rr["assumption_failed"]:
        site = case.exception_site or f"{case.name}/exception/{rex['type']}@{rex['blame'][1]}"
        rec["site"] = site
        rec["reproduced"] = True
        out["violations"].append(rec)
        out["obligations"].append({"name": "no-exception", "verdict": "sat", "site": site, "expect": "unsat"})
    else:
        out["status"] = "error"
        who = exc_info["blame"]
        out["errors"].append(
            f"exception on a symbolic path did not reproduce on the real code (proxy/stub defect?): {exc_info['type']}: "
            f"{exc_info['msg']} blamed on {who}; real-mode replay: {_replay_summary(rr)}\n{exc_info['tb']}")


def _replay_summary(rr):
    return {"obs_false": [k for k, t in rr["obs"].items() if t is False], "exc": (rr["exc"] and {k: rr["exc"][k] for k in ("type", "blame", "msg")}),
            "assumption_failed": rr["assumption_failed"]}


def _judge_replay(rr, ob):
    if rr["assumption_failed"]:
        return False, "assumption failed in replay: " + rr["assumption_failed"]
    if rr["exc"]:
        if rr["exc"]["blame"][0] == "repo":
            return True, f"real code raised {rr['exc']['type']}"
        return False, f"replay raised {rr['exc']['type']} in {rr['exc']['blame']}: {rr['exc']['msg']}"
    if rr["obs"].get(ob.name) is False:
        return True, None
    return False, "obligation holds on the real code for the solver's model"


def _discharge(case, c, ob: Ob, out, opts):
    t0 = time.time()
    cond = ob.cond
    rec = {"name": ob.name, "site": ob.site or case.site, "expect": ob.expect}
    if not isinstance(cond, Sym):
        if isinstance(cond, (bool,)) or type(cond).__name__ == "bool_":
            verdict = "unsat" if bool(cond) else "sat"
            how = "constant"     # a Python bool: either structural, or a z3 term that z3.simplify normalised to true/false
            neg = z3.BoolVal(not bool(cond))
        else:
            raise HarnessError(f"obligation {ob.name}: condition of type {type(cond)}")
    else:
        neg = z3.Not(core.zbool(cond))
        wit = None
        if ob.expect == "sat":
            wit = _witness_by_evaluation(c, neg, opts.get("seed", 0))
        if wit is not None:
            verdict, how = "sat", "witness-by-evaluation"
        else:
            # sensitivity twins only need to be refuted on SOME path: a short budget per path is enough
            verdict, _m, how = _final_check(c, neg, opts["timeout_ms"] if ob.expect != "sat" else min(opts["timeout_ms"], 4000), quick_only=(ob.expect == "sat"))
            if verdict == "unknown" and ob.expect != "sat":
                # one retry with a 4x budget (a loaded machine can push a query over its budget)
                verdict, _m, how = _final_check(c, neg, opts["timeout_ms"] * 4)
            if verdict == "unknown" and ob.expect != "sat":
                wit = _witness_by_evaluation(c, neg, opts.get("seed", 0), tries=200)
                if wit is not None:
                    verdict, how = "sat", "witness-by-evaluation"
    rec.update(verdict=verdict, how=how, seconds=round(time.time() - t0, 4))
    out["obligations"].append(rec)
    if ob.expect == "sat":
        return
    if verdict == "unknown":
        out["status"] = "error"
        out["errors"].append(f"obligation {ob.name}: solver answered unknown (inconclusive)")
        return
    if verdict == "sat":
        model = wit if (isinstance(cond, Sym) and wit is not None) else nice_model(c, (neg,), seed=opts.get("seed", 0))
        if model is None:
            out["status"] = "error"
            out["errors"].append(f"obligation {ob.name}: sat but no model could be extracted")
            return
        candidates = [model]
        reproduced, why, rr = False, None, None
        attempt = 0
        while candidates:
            model = candidates.pop(0)
            rr = concrete_run(case, model, "real")
            reproduced, why = _judge_replay(rr, ob)
            if reproduced:
                break
            attempt += 1
            if attempt <= 3:
                # the solver's corner model may differ from the real run only within float tolerance (or, for a
                # structural obligation, coincide in inputs the harness tells apart by content): look for a
                # generic witness (random evaluation) and replay that instead
                w2 = _witness_by_evaluation(c, neg, opts.get("seed", 0) + 101 * attempt, tries=150)
                if w2 is not None:
                    candidates.append(w2)
        vrec = {"ob": ob.name, "kind": "obligation", "site": rr["sites"].get(ob.name) or ob.site or case.site or f"{case.name}/{ob.name}",
                "model": model_jsonable(model), "reproduced": reproduced, "why": why, "replay": _replay_summary(rr)}
        if reproduced:
            out["violations"].append(vrec)
        else:
            out["status"] = "error"
            out.setdefault("nonrepro", []).append(vrec)
            out["errors"].append(f"obligation {ob.name}: solver model does not reproduce on the real code ({why}); model={str(vrec['model'])[:300]}")


# ---------------------------------------------------------------------------- worker-side task

_CASE_CACHE = {}


def load_cases(modname, tier):
    key = (modname, tier)
    if key not in _CASE_CACHE:
        mod = importlib.import_module(modname)
        _CASE_CACHE[key] = {c.name: c for c in mod.cases(tier)}
    return _CASE_CACHE[key]


def explore_task(modname, tier, casename, prefix, max_paths, opts):
    """Explore (depth-first) up to max_paths paths below `prefix`.  Returns plain data."""
    import torch
    torch.set_num_threads(1)
    case = load_cases(modname, tier)[casename]
    solver = z3.Solver()
    solver.set("timeout", opts["timeout_ms"])
    solver.set("random_seed", opts.get("seed", 0) % (2 ** 31))
    pending = [list(prefix)]
    results = []
    t0 = time.time()
    n = 0
    import gc
    while pending and n < max_paths:
        if n % 25 == 0:
            gc.collect()    # (automatic collection is off in the workers: see main._init_worker)
        p = pending.pop()
        res = run_path(case, p, solver, pending, opts, profile=(opts.get("profile") and len(p) == 0))
        results.append(res)
        n += 1
        if res["status"] == "error" and opts.get("fail_fast", True):
            break
    from .tensor import OPS_HIT
    return {"case": casename, "results": results, "pending": pending, "wall_s": time.time() - t0,
            "ops_hit": sorted(OPS_HIT)}


def validate_task(modname, tier, casename, model_json, opts, skip=()):
    """Proxy-layer validation: the same inputs through (a) the proxies holding exact numbers and (b) the real
    code on plain tensors; every obligation must hold in both and observables must agree."""
    import torch
    import gc
    torch.set_num_threads(1)
    gc.collect()
    case = load_cases(modname, tier)[casename]
    model = model_from_json(model_json)
    a = concrete_run(case, model, "pconst")
    b = concrete_run(case, model, "real")
    problems = []
    for tag, r in (("pconst", a), ("real", b)):
        if r["assumption_failed"]:
            problems.append(f"{tag}: assumption failed: {r['assumption_failed']}")
        if r["exc"]:
            problems.append(f"{tag}: raised {r['exc']['type']}: {r['exc']['msg']} {r['exc']['blame']}\n{r['exc'].get('tb','')}")
        for k, t in r["obs"].items():
            if t is False and k not in skip:
                problems.append(f"{tag}: obligation {k} false on a model of a path where the solver proved it")
    if not problems:
        if set(a["obs"]) != set(b["obs"]):
            problems.append(f"different obligation sets: {sorted(set(a['obs']) ^ set(b['obs']))}")
        for k in a["observables"]:
            xa, xb = a["observables"][k], b["observables"].get(k)
            if xb is None or len(xa) != len(xb) or any(abs(float(p) - float(q)) > 1e-3 * (1 + abs(float(p))) for p, q in zip(xa, xb)):
                problems.append(f"observable {k} differs: proxy {xa} vs real {xb}")
    if problems:
        problems = [p_ + f" [model={json.dumps(model_json)[:1200]}]" for p_ in problems[:1]] + problems[1:]
    return {"case": casename, "ok": not problems, "problems": problems, "n_obs": len(a["obs"]),
            "n_observables": sum(len(x) for x in a["observables"].values())}
