"""symx.values — mode-aware input factory and mode-agnostic logic helpers.

A harness is written once:   def run(self, v): ...build inputs with v.real()/v.tensor()..., call the real
code, return obligations built with eq()/le()/conj()...   It then runs in three modes:

  sym     inputs are fresh z3 variables; obligations are z3 formulas decided per path
  pconst  inputs are the exact rationals of a model, carried by the same proxies (SymTensor of Fractions)
  real    inputs are plain floats / torch tensors of the model — the real code with no proxies
"""
from __future__ import annotations

import math
from fractions import Fraction

import numpy as np
import torch

from . import core
from .core import SBool, SInt, SReal, Sym, ite, land, lnot, lor
from .tensor import SymTensor, mk, _objarr

TOL = 1e-5


class AssumptionFailed(Exception):
    pass


class V:
    def __init__(self, mode, model=None, float_dtype=torch.float32):
        assert mode in ("sym", "pconst", "real")
        self.mode = mode
        self.model = model or {}
        self.names = {}
        self.float_dtype = float_dtype
        self.assumptions = []
        self.missing = []

    # ---- naming (same sequence in every mode)
    def _name(self, name):
        k = self.names.get(name, 0)
        self.names[name] = k + 1
        return name if k == 0 else f"{name}#{k}"

    def _lookup(self, name, default):
        if name in self.model:
            return self.model[name]
        self.missing.append(name)
        return default

    # ---- scalars
    def real(self, name):
        name = self._name(name)
        if self.mode == "sym":
            c = core.ctx()
            z = core.z3.Real(name)
            c.inputs[name] = z
            return SReal(z)
        x = self._lookup(name, Fraction(0))
        return core.Q(x) if self.mode == "pconst" else float(x)

    def int(self, name):
        name = self._name(name)
        if self.mode == "sym":
            c = core.ctx()
            z = core.z3.Int(name)
            c.inputs[name] = z
            return SInt(z)
        return int(self._lookup(name, 0))

    def bool(self, name):
        name = self._name(name)
        if self.mode == "sym":
            c = core.ctx()
            z = core.z3.Bool(name)
            c.inputs[name] = z
            return SBool(z)
        return bool(self._lookup(name, False))

    def flag(self, name):
        """0/1 integer"""
        x = self.int(name)
        self.assume(lor(x == 0, x == 1))
        return x

    def scalar(self, name, kind="real"):
        return {"real": self.real, "int": self.int, "bool": self.bool, "flag": self.flag}[kind](name)

    # ---- arrays / tensors
    def array(self, name, shape, kind="real"):
        """numpy array: object array of proxies (sym/pconst) or a typed array (real)"""
        npdt = {"real": np.float32, "int": np.int64, "flag": np.int64, "bool": np.bool_}[kind]
        if not shape:
            x = self.scalar(name, kind)
            return npdt(x) if self.mode == "real" else x
        e = np.empty(shape, dtype=object)
        for idx in np.ndindex(*shape):
            e[idx] = self.scalar(f"{name}{list(idx)}", kind)
        if self.mode == "real":
            return e.astype(npdt)
        return e

    def tensor(self, name, shape, kind="real", dtype=None):
        e = np.empty(tuple(shape), dtype=object)
        for idx in np.ndindex(*tuple(shape)):
            e[idx] = self.scalar(f"{name}{list(idx)}" if len(shape) else name, kind)
        if dtype is None:
            dtype = {"real": self.float_dtype, "int": torch.int64, "flag": torch.int64, "bool": torch.bool}[kind]
        if self.mode == "real":
            npdt = {"real": np.float64, "int": np.int64, "flag": np.int64, "bool": bool}[kind]
            return torch.from_numpy(np.ascontiguousarray(e.astype(npdt))).to(dtype)
        return mk(e, dtype)

    def const_tensor(self, values, dtype=None):
        """a tensor of known numbers, in the representation of the current mode"""
        if self.mode == "real":
            return torch.as_tensor(np.asarray(values), dtype=dtype)
        arr = np.asarray(values)
        if dtype is None:
            dtype = torch.from_numpy(np.zeros((), arr.dtype)).dtype if arr.dtype != object else None
            if dtype == torch.float64:
                dtype = self.float_dtype
        return mk(_objarr(arr.tolist()) if arr.dtype != object else arr, dtype)

    # ---- assumptions
    def assume(self, cond, text=None):
        if text:
            self.assumptions.append(text)
        if self.mode == "sym":
            core.ctx().add(cond)
            return
        if isinstance(cond, Sym):
            raise core.HarnessError("symbolic assumption outside sym mode")
        if not cond:
            raise AssumptionFailed(text or "assumption does not hold for the replayed model")

    def prefer(self, cond):
        """A wish for the models handed to the concrete replay (e.g. 'these two inputs differ' when the harness tells
        calls apart by content).  It never enters a deciding query: a model is first looked for with the wishes, then
        without."""
        if self.mode == "sym" and isinstance(cond, Sym):
            core.ctx().prefs.append(core.zbool(cond))

    @property
    def symbolic(self):
        return self.mode == "sym"


# --------------------------------------------------------------------------- access helpers


def val(x, *idx):
    """scalar content of a tensor/array/number at idx (mode-agnostic)"""
    if isinstance(x, SymTensor):
        e = x._e
        r = e[idx] if idx else e
        if isinstance(r, np.ndarray):
            if r.size != 1:
                raise core.HarnessError(f"val(): not a single element, shape {r.shape}")
            r = r.reshape(-1)[0]
        return r
    if isinstance(x, torch.Tensor):
        r = x[idx] if idx else x
        if r.numel() != 1:
            raise core.HarnessError(f"val(): not a single element, shape {tuple(r.shape)}")
        return r.reshape(-1)[0].item()
    if isinstance(x, np.ndarray):
        r = x[idx] if idx else x
        if isinstance(r, np.ndarray):
            if r.size != 1:
                raise core.HarnessError(f"val(): not a single element, shape {r.shape}")
            r = r.reshape(-1)[0]
        return r.item() if isinstance(r, np.generic) else r
    if idx:
        r = x
        for i in idx:
            r = r[i]
        return val(r)
    if isinstance(x, np.generic):
        return x.item()
    return x


def elems(x):
    """flat list of scalar contents"""
    if isinstance(x, SymTensor):
        return list(x._e.reshape(-1))
    if isinstance(x, torch.Tensor):
        return x.detach().reshape(-1).tolist()
    if isinstance(x, np.ndarray):
        return [v.item() if isinstance(v, np.generic) else v for v in x.reshape(-1)]
    if isinstance(x, (list, tuple)):
        out = []
        for y in x:
            out += elems(y)
        return out
    return [val(x)]


def shape_of(x):
    if isinstance(x, (torch.Tensor, np.ndarray)):
        return tuple(x.shape)
    if isinstance(x, (list, tuple)):
        return (len(x),) + (shape_of(x[0]) if len(x) else ())
    return ()


# --------------------------------------------------------------------------- logic (Sym or concrete-with-tolerance)


def _isfloaty(x):
    return isinstance(x, (float, np.floating))


def _tol(a, b):
    return TOL * (1.0 + max(abs(float(a)), abs(float(b))))


def eq(a, b):
    if isinstance(a, Sym) or isinstance(b, Sym):
        return a == b if isinstance(a, Sym) else b == a
    if _isfloaty(a) or _isfloaty(b):
        fa, fb = float(a), float(b)
        if math.isinf(fa) or math.isinf(fb):
            return fa == fb
        return abs(fa - fb) <= _tol(a, b)
    return bool(a == b)


def ne(a, b):
    return lnot(eq(a, b))


def le(a, b):
    if isinstance(a, Sym) or isinstance(b, Sym):
        return a <= b if isinstance(a, Sym) else b >= a
    if _isfloaty(a) or _isfloaty(b):
        return float(a) <= float(b) + _tol(a, b)
    return bool(a <= b)


def lt(a, b):
    if isinstance(a, Sym) or isinstance(b, Sym):
        return a < b if isinstance(a, Sym) else b > a
    if _isfloaty(a) or _isfloaty(b):
        return float(a) < float(b)
    return bool(a < b)


def ge(a, b):
    return le(b, a)


def gt(a, b):
    return lt(b, a)


conj = land
disj = lor
neg = lnot


def implies(a, b):
    return lor(lnot(a), b)


def all_eq(xs, ys):
    xs, ys = elems(xs), elems(ys)
    if len(xs) != len(ys):
        return False
    return land(*[eq(x, y) for x, y in zip(xs, ys)])


def smax(*xs):
    r = xs[0]
    for x in xs[1:]:
        r = ite(ge(x, r), x, r) if (isinstance(x, Sym) or isinstance(r, Sym)) else (x if x >= r else r)
    return r


def smin(*xs):
    r = xs[0]
    for x in xs[1:]:
        r = ite(le(x, r), x, r) if (isinstance(x, Sym) or isinstance(r, Sym)) else (x if x <= r else r)
    return r


def truth(x):
    """Python truth of a concrete obligation result"""
    if isinstance(x, Sym):
        raise core.HarnessError("symbolic obligation in a concrete mode")
    if isinstance(x, torch.Tensor):
        return bool(x.all())
    if isinstance(x, np.ndarray):
        return bool(x.all())
    return bool(x)
