"""symx.main — ./check entry point: run every case of a property's harness, decide, replay, report."""
from __future__ import annotations

import argparse
import concurrent.futures as cf
import hashlib
import importlib
import json
import multiprocessing as mp
import os
import random
import subprocess
import sys
import time

VERIF = os.path.dirname(os.path.dirname(os.path.abspath(__file__)))
sys.path.insert(0, VERIF)

EXIT_OK, EXIT_VIOLATION, EXIT_HARNESS = 0, 1, 2


def _init_worker():
    import warnings
    warnings.filterwarnings("ignore")
    os.environ.setdefault("OMP_NUM_THREADS", "1")
    # The cyclic garbage collector may run in ANY thread, also in the solver watchdog's timer threads, where finalising z3
    # objects would race with the main thread inside z3 (contexts are not thread-safe; seen as a z3 'UNEXPECTED CODE WAS
    # REACHED' abort on a loaded machine).  Automatic collection is switched off in the workers; explore_task / validate_task
    # collect explicitly, in the main thread, between paths.
    import gc
    gc.disable()
    # never outlive the checking process (a killed ./check must not leave workers computing)
    import threading
    parent = os.getppid()

    def watchdog():
        while True:
            time.sleep(2.0)
            if os.getppid() != parent:
                os._exit(1)
    threading.Thread(target=watchdog, daemon=True).start()


def load_known():
    p = os.path.join(VERIF, "known_findings.json")
    if not os.path.exists(p):
        return []
    return json.load(open(p)).get("findings", [])


def repo_state():
    try:
        head = subprocess.run(["git", "-C", "/repo", "rev-parse", "--short", "HEAD"], capture_output=True, text=True).stdout.strip()
        dirty = subprocess.run(["git", "-C", "/repo", "status", "--porcelain", "--untracked-files=no"], capture_output=True, text=True).stdout.strip()
        return {"head": head, "dirty_files": [l[3:] for l in dirty.splitlines()][:20]}
    except Exception:   # noqa: BLE001
        return {}


def run_property(pid, tier, seed, jobs):
    from harness.registry import MODULES
    from symx import explore
    from symx.case import fn_fingerprint

    t_start = time.time()
    modname = MODULES[pid]
    mod = importlib.import_module(modname)
    cases = mod.cases(tier)
    only = [x for x in os.environ.get("VERIF_CASES", "").split(",") if x]      # debugging aid only: never set by a registered command
    if only:
        cases = [c for c in cases if any(x in c.name for x in only)]
    if not cases:
        print(f"HARNESS-ERROR property={pid} no cases for tier {tier}")
        return EXIT_HARNESS
    opts = {"timeout_ms": int(os.environ.get("VERIF_SOLVER_TIMEOUT_MS", 30000 if tier == "quick" else 120000)),
            "seed": seed, "profile": True, "fail_fast": True,
            "path_timeout_s": int(os.environ.get("VERIF_PATH_TIMEOUT_S", 600 if tier == "quick" else 1800))}
    chunk = 6 if tier == "quick" else 12
    per_case = {c.name: {"case": c, "paths": [], "errors": [], "pending": 0, "wall": 0.0, "ops": set()} for c in cases}
    ctx = mp.get_context("spawn")
    errors = []
    with cf.ProcessPoolExecutor(max_workers=jobs, mp_context=ctx, initializer=_init_worker) as ex:
        futs = {}
        for c in cases:
            f = ex.submit(explore.explore_task, modname, tier, c.name, [], chunk, opts)
            futs[f] = c.name
        while futs:
            done, _ = cf.wait(list(futs), return_when=cf.FIRST_COMPLETED)
            for f in done:
                cname = futs.pop(f)
                pc = per_case[cname]
                try:
                    r = f.result()
                except Exception as e:   # noqa: BLE001
                    import traceback
                    pc["errors"].append(f"worker crashed: {type(e).__name__}: {e}\n{traceback.format_exc()[-1500:]}")
                    continue
                pc["paths"] += r["results"]
                pc["wall"] += r["wall_s"]
                pc["ops"].update(r["ops_hit"])
                # a broken case is not explored further - except when the only trouble is a solver model that did not replay
                # (uninterpreted functions): another path may hold the counterexample that does
                had_error = any(p["status"] == "error" and not p.get("nonrepro") for p in r["results"])
                if had_error:
                    continue      # do not fan out further on a broken case
                if len(pc["paths"]) + len(r["pending"]) > pc["case"].max_paths:
                    pc["errors"].append(f"path budget exhausted (> {pc['case'].max_paths})")
                    continue
                for p in r["pending"]:
                    nf = ex.submit(explore.explore_task, modname, tier, cname, p, chunk, opts)
                    futs[nf] = cname
        # ------------------------------------------------------------ proxy-layer validation on sampled paths
        rng = random.Random(seed)
        nval = int(os.environ.get("VERIF_VALIDATE_PER_CASE", 2 if tier == "quick" else 6))
        vfuts = {}
        for cname, pc in per_case.items():
            okp = [p for p in pc["paths"] if p["status"] == "ok" and p.get("pc_model") is not None
                   and not any(vr.get("kind") == "exception" for vr in p["violations"])]
            rng.shuffle(okp)
            for p in okp[:nval]:
                skip = [o["name"] for o in p["obligations"] if o["verdict"] != "unsat"]
                vf = ex.submit(explore.validate_task, modname, tier, cname, p["pc_model"], opts, skip)
                vfuts[vf] = cname
        validations = []
        for vf in cf.as_completed(list(vfuts)):
            cname = vfuts[vf]
            try:
                validations.append(vf.result())
            except Exception as e:   # noqa: BLE001
                validations.append({"case": cname, "ok": False, "problems": [f"validation crashed: {type(e).__name__}: {e}"]})

    # ---------------------------------------------------------------- aggregate
    known = [k for k in load_known() if k.get("property") == pid]
    known_sites = {k["site"]: k for k in known if k.get("status") == "known"}
    viol_unknown, viol_known = [], {}
    n_paths = n_queries = n_obl = n_discharged = n_unknown = n_const = 0
    solver_s = 0.0
    samples = []
    executed = set()
    assumptions = set()
    twin_status = {}
    twin_unknown = {}
    case_summ = []
    for cname, pc in per_case.items():
        c = pc["case"]
        st = {"ok": 0, "infeasible": 0, "error": 0, "allowed-exception": 0}
        obl = disc = 0
        for p in pc["paths"]:
            st[p["status"]] = st.get(p["status"], 0) + 1
            n_queries += p.get("queries", 0)
            solver_s += p.get("solver_s", 0.0)
            for e in p["errors"]:
                pc["errors"].append(e)
            if p.get("executed"):
                executed.update(p["executed"])
            assumptions.update(p.get("assumptions", []))
            if p["status"] == "infeasible":
                continue
            n_paths += 1
            for o in p["obligations"]:
                if o["expect"] == "sat":
                    key = (cname, o["name"])
                    twin_status[key] = twin_status.get(key, False) or o["verdict"] == "sat"
                    twin_unknown[key] = twin_unknown.get(key, False) or o["verdict"] == "unknown"
                    continue
                obl += 1
                if o["verdict"] == "unsat":
                    disc += 1
                    if o.get("how") == "constant":
                        n_const += 1
                elif o["verdict"] == "unknown":
                    n_unknown += 1
                if len(samples) < 6 and o.get("how") != "constant":
                    samples.append({"case": cname, "bounds": c.bounds, "path_decisions": len(p.get("trail", [])),
                                    "obligation": o["name"], "verdict": o["verdict"], "solver": o.get("how"), "seconds": o.get("seconds")})
            for k, nr in enumerate(p.get("nonrepro", [])):
                os.makedirs(os.path.join(VERIF, "replays"), exist_ok=True)
                json.dump({"property": pid, "tier": tier, "module": modname, "case": cname, **nr},
                          open(os.path.join(VERIF, "replays", f"nonrepro_{pid}_{cname}_{k}.json"), "w"), indent=1, default=str)
            for vrec in p["violations"]:
                site = vrec.get("site")
                vrec = dict(vrec, case=cname, prefix=p["prefix"])
                if site in known_sites:
                    viol_known.setdefault(site, []).append(vrec)
                else:
                    viol_unknown.append(vrec)
        n_obl += obl
        n_discharged += disc
        if st["ok"] + st["allowed-exception"] == 0 and not pc["errors"]:
            pc["errors"].append("vacuous: no feasible path reached the obligations")
        case_summ.append({"case": cname, "bounds": c.bounds, "paths": st, "obligations": obl, "discharged": disc,
                          "wall_s": round(pc["wall"], 2)})
        for e in pc["errors"]:
            errors.append(f"[{cname}] {e}")
    twin_inconclusive = []
    for (cname, oname), ok in twin_status.items():
        if not ok:
            if twin_unknown.get((cname, oname)):
                # the solver could not decide the wrong oracle within the twin's short budget on some path and proved it on
                # none... blindness is only established by `unsat` on every path; an undecided twin is reported, not failed
                twin_inconclusive.append(f"{cname}/{oname}")
            else:
                errors.append(f"[{cname}] sensitivity twin '{oname}' was never refuted (oracle blind?)")
    for vres in validations:
        if not vres["ok"]:
            for pr in vres["problems"]:
                errors.append(f"[{vres['case']}] proxy-vs-real validation: {pr}")

    # ---------------------------------------------------------------- report
    os.makedirs(os.path.join(VERIF, "replays"), exist_ok=True)
    os.makedirs(os.path.join(VERIF, "evidence"), exist_ok=True)
    lines = []
    for site, vs in viol_known.items():
        k = known_sites[site]
        lines.append(f"KNOWN-FINDING: property={pid} {site}: {k.get('what','')} ({len(vs)} counterexample path(s) replayed on the real code)")
    replay_paths = []
    seen_sites = set()
    for i, vrec in enumerate(viol_unknown):
        if vrec.get("site") in seen_sites and len(replay_paths) >= 3:
            continue
        seen_sites.add(vrec.get("site"))
        h = hashlib.sha1(json.dumps([vrec["case"], vrec["ob"], vrec["model"]], sort_keys=True).encode()).hexdigest()[:10]
        path = os.path.join(VERIF, "replays", f"{pid}_{h}.json")
        json.dump({"property": pid, "tier": tier, "module": modname, **vrec}, open(path, "w"), indent=1, default=str)
        replay_paths.append(path)
        lines.append(f"VIOLATION property={pid} replay={path}")
        lines.append(f"  case={vrec['case']} obligation={vrec['ob']} site={vrec.get('site')} {vrec.get('why') or ''}")

    functions = []
    for c in cases:
        for fn in c.functions:
            fp = fn_fingerprint(fn)
            if fp not in functions:
                functions.append(fp)
    stubs = sorted({s for c in cases for s in c.stubs})
    outside = sorted({s for c in cases for s in c.outside})
    stated = sorted({s for c in cases for s in c.assumptions} | assumptions)
    wall = time.time() - t_start
    nval_ok = sum(1 for v in validations if v["ok"])
    n_replays = sum(len(v) for v in viol_known.values()) + len(viol_unknown)
    evidence = {
        "property_id": pid, "tier": tier, "seed": seed, "level": "model_checking",
        "coverage": {
            "states": max(n_paths, 0), "transitions": n_queries,
            "traces_validated_against_impl": nval_ok + n_replays,
            "samples": samples or [{"note": "no solver-decided obligation"}],
            "evaluations": n_obl, "distinct_nontrivial": n_obl - n_const,
            "rule": "one evaluation = one (case, feasible path, obligation) triple decided by z3 as pc ∧ assumptions ∧ ¬obligation; non-trivial = not reduced to a constant by term simplification before the solver was asked",
            "exhaustive": False,
            "explanation": "states = feasible paths of the real code explored under symbolic inputs; transitions = solver queries (feasibility + obligations); every obligation is decided for ALL values of the symbolic inputs at the stated shapes",
            "cases": case_summ,
            "functions_encoded": functions,
            "repo_functions_executed": sorted(executed),
            "obligations": n_obl, "discharged": n_discharged, "unknown": n_unknown,
            "vacuity": {"feasible_paths": n_paths,
                        "sensitivity_twins": {f"{a}/{b}": ok for (a, b), ok in twin_status.items()},
                        "sensitivity_twins_undecided": twin_inconclusive},
            "proxy_validation": {"runs": len(validations), "ok": nval_ok,
                                 "what": "model of a proved path pushed through (a) proxies holding exact rationals and (b) the real code on plain torch tensors; obligations must hold in both and observables agree"},
            "solver": {"name": "z3", "version": __import__("z3").get_version_string(), "solver_s": round(solver_s, 2), "timeout_ms": opts["timeout_ms"]},
            "number_domain": "mathematical reals/integers (floats are reals) unless a case says FP",
            "stubs": stubs, "outside_claim": outside,
            "symtensor_ops_hit": sorted(set().union(*[pc["ops"] for pc in per_case.values()])) if per_case else [],
            "known_findings_hit": sorted(viol_known), "violations_new": len(viol_unknown),
            "harness_errors": errors[:20],
            "repo": repo_state(),
        },
        "assumptions": stated,
        "wall_s": round(wall, 2),
        "violations": len(viol_unknown),
    }
    evdir = os.environ.get("VERIF_EVIDENCE_DIR") or os.path.join(VERIF, "evidence")     # tools/with_patch.sh points this elsewhere
    os.makedirs(evdir, exist_ok=True)
    json.dump(evidence, open(os.path.join(evdir, f"{pid}.json"), "w"), indent=1, default=str)
    for l in lines:
        print(l)
    print(f"[{pid} {tier}] cases={len(cases)} paths={n_paths} obligations={n_obl} discharged={n_discharged} "
          f"unknown={n_unknown} queries={n_queries} solver_s={solver_s:.1f} validated={nval_ok}/{len(validations)} "
          f"known={len(viol_known)} new_violations={len(viol_unknown)} errors={len(errors)} wall={wall:.1f}s")
    if errors:
        for e in errors[:12]:
            print("HARNESS-ERROR:", e[:3000])
    if viol_unknown:
        return EXIT_VIOLATION
    if errors:
        return EXIT_HARNESS
    return EXIT_OK


def replay(pid, path):
    from symx import explore
    rec = json.load(open(path))
    tier = rec.get("tier", "quick")
    case = explore.load_cases(rec["module"], tier)[rec["case"]]
    model = explore.model_from_json(rec["model"])
    rr = explore.concrete_run(case, model, "real")
    print(json.dumps({"case": rec["case"], "obligation": rec["ob"], "site": rec.get("site"),
                      "obligations_false_on_real_code": [k for k, t in rr["obs"].items() if t is False],
                      "exception": rr["exc"] and {k: rr["exc"][k] for k in ("type", "blame", "msg")},
                      "assumption_failed": rr["assumption_failed"], "model": rec["model"]}, indent=1, default=str))
    if rr["exc"] and rr["exc"].get("tb"):
        print(rr["exc"]["tb"])
    bad = (rr["obs"].get(rec["ob"]) is False) or (rr["exc"] and rr["exc"]["blame"][0] == "repo")
    if bad:
        print(f"VIOLATION property={pid} replay={path}")
        return EXIT_VIOLATION
    return EXIT_OK


def main():
    ap = argparse.ArgumentParser()
    ap.add_argument("pid")
    ap.add_argument("tier", nargs="?", default=os.environ.get("VERIF_TIER", "quick"))
    ap.add_argument("--replay")
    ap.add_argument("--jobs", type=int, default=int(os.environ.get("VERIF_JOBS", min(16, os.cpu_count() or 4))))
    a = ap.parse_args()
    seed = int(os.environ.get("VERIF_SEED", "0") or 0)
    import warnings
    warnings.filterwarnings("ignore")
    if a.replay:
        sys.exit(replay(a.pid, a.replay))
    if a.tier not in ("quick", "thorough"):
        print("tier must be quick|thorough")
        sys.exit(EXIT_HARNESS)
    try:
        rc = run_property(a.pid, a.tier, seed, a.jobs)
    except Exception as e:   # noqa: BLE001
        import traceback
        traceback.print_exc()
        print(f"HARNESS-ERROR property={a.pid} {type(e).__name__}: {e}")
        rc = EXIT_HARNESS
    sys.exit(rc)


if __name__ == "__main__":
    main()
