"""symx.tensor — SymTensor: a genuine torch.Tensor wrapper subclass (no storage) whose contents are a
NumPy object array of proxies / exact numbers.  torch routes every function or method that receives one
to ``__torch_function__``; an explicit table implements the op over the object array.  An op that is not in
the table raises ``Unsupported`` (harness error) — nothing is silently concretised.
"""
from __future__ import annotations

import math
import operator
import os
from fractions import Fraction

import numpy as np
import torch

from . import core
from .core import (SBool, SInt, SReal, Sym, Unsupported, concretize, ite, land, lnot, lor, uf_apply)

META_PROPS = {"shape", "ndim", "dtype", "device", "requires_grad", "is_leaf", "layout", "is_cuda", "is_sparse",
              "is_quantized", "is_meta", "names", "grad_fn", "is_nested", "is_cpu", "is_mps", "is_xpu", "is_mkldnn",
              "is_sparse_csr", "itemsize", "nbytes", "_base", "output_nr", "_version", "is_xla", "is_ipu", "is_maia",
              "is_vulkan", "is_mtia"}
META_FUNCS = {"size", "dim", "numel", "ndimension", "is_floating_point", "is_complex", "stride", "storage_offset",
              "is_contiguous", "element_size", "nelement", "__len__", "is_shared", "is_pinned", "get_device",
              "is_inference", "is_signed", "is_conj", "is_neg", "has_names", "_is_view", "is_same_size", "is_set_to",
              "dim_order", "is_coalesced", "retains_grad", "__hash__", "_is_zerotensor", "data_ptr"}

FLOATS = (torch.float32, torch.float64, torch.float16, torch.bfloat16)
INTS = (torch.int64, torch.int32, torch.int16, torch.int8, torch.uint8)

OPS_HIT = set()   # names of table entries actually used (reported in evidence)


def mk(e, dtype=None):
    if not (isinstance(e, np.ndarray) and e.dtype == object):
        e = _objarr(e)
    if dtype is None:
        dtype = _infer_dtype(e)
    t = torch.Tensor._make_wrapper_subclass(SymTensor, tuple(e.shape), dtype=dtype)
    t._e = e
    t._symgrad = None
    return t


def _objarr(x):
    if isinstance(x, np.ndarray):
        return x.astype(object)
    if isinstance(x, (list, tuple)):
        # build without letting numpy inspect Sym objects oddly
        def shape_of(v):
            if isinstance(v, (list, tuple)):
                return (len(v),) + (shape_of(v[0]) if len(v) else ())
            if isinstance(v, np.ndarray):
                return v.shape
            if isinstance(v, torch.Tensor):
                return tuple(v.shape)
            return ()
        shp = shape_of(x)
        out = np.empty(shp, dtype=object)
        def fill(v, idx):
            if isinstance(v, (list, tuple)):
                for i, w in enumerate(v):
                    fill(w, idx + (i,))
            elif isinstance(v, (np.ndarray, torch.Tensor)):
                out[idx] = E(v)
            else:
                out[idx] = v
        fill(x, ())
        return out
    a = np.empty((), dtype=object)
    a[()] = x
    return a


def _infer_dtype(e):
    kinds = set()
    for x in e.reshape(-1)[:64]:
        if isinstance(x, SBool) or isinstance(x, (bool, np.bool_)):
            kinds.add("b")
        elif isinstance(x, SInt) or isinstance(x, (int, np.integer)):
            kinds.add("i")
        else:
            kinds.add("f")
    if "f" in kinds or not kinds:
        return torch.float32
    if "i" in kinds:
        return torch.int64
    return torch.bool


class SymTensor(torch.Tensor):
    @classmethod
    def __torch_dispatch__(cls, func, types, args=(), kwargs=None):
        raise Unsupported("dispatch-level op on SymTensor: " + str(func))

    def __repr__(self):
        return f"SymTensor(shape={tuple(self._e.shape)}, dtype={self.dtype})"

    __str__ = __repr__

    def __format__(self, spec):
        return repr(self)

    def __deepcopy__(self, memo):
        return mk(self._e.copy(), self.dtype)

    def __reduce_ex__(self, proto):
        raise Unsupported("pickling a SymTensor")

    @classmethod
    def __torch_function__(cls, func, types, args=(), kwargs=None):
        kwargs = kwargs or {}
        name = getattr(func, "__name__", None) or str(func)
        if name == "__get__":
            pname = func.__self__.__name__
            if pname in META_PROPS:
                with torch._C.DisableTorchFunctionSubclass():
                    return func(*args, **kwargs)
            name = "prop_" + pname
        elif name == "__set__":
            name = "propset_" + func.__self__.__name__
        if name in META_FUNCS:
            with torch._C.DisableTorchFunctionSubclass():
                return func(*args, **kwargs)
        h = H.get(name)
        if h is None:
            raise Unsupported(f"SymTensor op not modelled: {name} args={[type(a).__name__ for a in args]} kwargs={list(kwargs)}")
        OPS_HIT.add(name)
        try:
            return h(*args, **kwargs)
        except TypeError:
            if os.environ.get("SYMX_DEBUG"):
                import traceback
                traceback.print_exc()
            raise
        except ValueError as ex:       # numpy broadcasting errors are RuntimeErrors in torch
            if "broadcast" in str(ex) or "shape" in str(ex):
                raise RuntimeError(str(ex)) from None
            raise


def is_sym(x):
    return isinstance(x, SymTensor)


def E(x):
    """operand -> numpy object array (or scalar)"""
    if isinstance(x, SymTensor):
        return x._e
    if isinstance(x, torch.Tensor):
        with torch._C.DisableTorchFunctionSubclass():
            return x.detach().cpu().numpy().astype(object)
    if isinstance(x, np.ndarray):
        return x.astype(object) if x.dtype != object else x
    if isinstance(x, (list, tuple)):
        return _objarr(x)
    return x


def _dt(x):
    if isinstance(x, torch.Tensor):
        return x.dtype
    if isinstance(x, (SBool, bool, np.bool_)):
        return "pb"
    if isinstance(x, (SInt, int, np.integer)):
        return "pi"
    if isinstance(x, (SReal, float, Fraction, np.floating)):
        return "pf"
    if isinstance(x, np.ndarray):
        if x.dtype == object:
            return _infer_dtype(x)
        return torch.from_numpy(np.zeros((), x.dtype)).dtype
    return "pf"


def res_dtype(*xs, truediv=False):
    dts = [_dt(x) for x in xs]
    tens = [d for d in dts if isinstance(d, torch.dtype)]
    if truediv:
        for d in tens:
            if d == torch.float64:
                return torch.float64
        return torch.float32
    if any(d in FLOATS for d in tens):
        return torch.float64 if any(d == torch.float64 for d in tens) else torch.float32
    if "pf" in dts:
        return torch.float32
    if any(d in INTS for d in tens):
        return torch.int64 if any(d == torch.int64 for d in tens) else [d for d in tens if d in INTS][0]
    if "pi" in dts:
        return torch.int64
    return torch.bool


H = {}


def reg(*names):
    def d(f):
        for n in names:
            H[n] = f
        return f
    return d


def vec1(f):
    g = np.frompyfunc(f, 1, 1)
    return lambda a: np.asarray(g(a), dtype=object) if not isinstance(g(a), np.ndarray) else g(a)


def _v1(f, a):
    r = np.frompyfunc(f, 1, 1)(a)
    if not isinstance(r, np.ndarray):
        r = _objarr(r)
    return r


def _v2(f, a, b):
    r = np.frompyfunc(f, 2, 1)(a, b)
    if not isinstance(r, np.ndarray):
        r = _objarr(r)
    return r


def _v3(f, a, b, c):
    r = np.frompyfunc(f, 3, 1)(a, b, c)
    if not isinstance(r, np.ndarray):
        r = _objarr(r)
    return r


def _shape_args(shape):
    if len(shape) == 1 and isinstance(shape[0], (tuple, list, torch.Size)):
        shape = tuple(shape[0])
    return tuple(int(s) for s in shape)


# ------------------------------------------------------------------ element helpers


def e_floor(x):
    if isinstance(x, Sym):
        return x.__floor__()
    if isinstance(x, float):
        return math.floor(x)
    return math.floor(x)


def e_ceil(x):
    if isinstance(x, Sym):
        return x.__ceil__()
    return math.ceil(x)


def e_trunc(x):
    if isinstance(x, Sym):
        return x.__trunc__()
    return math.trunc(x)


def e_abs(x):
    return abs(x)


def e_bool(x):
    if isinstance(x, SBool) or isinstance(x, (bool, np.bool_)):
        return x
    if isinstance(x, Sym):
        return x != 0
    return bool(x != 0)


def e_toreal(x):
    if isinstance(x, SBool):
        return ite(x, 1, 0) * Fraction(1) if False else core.lower(core.zreal(x))
    if isinstance(x, SInt):
        return core.lower(core.zreal(x))
    if isinstance(x, (bool, np.bool_)):
        return int(x)
    return x


def e_toint(x):
    """torch .long()/.int(): truncation toward zero for reals, 0/1 for bools"""
    if isinstance(x, SBool):
        return core.lower(core.zint(x))
    if isinstance(x, SInt):
        return x
    if isinstance(x, SReal):
        return x.__trunc__()
    if isinstance(x, (bool, np.bool_)):
        return int(x)
    return math.trunc(x)


def e_max(a, b):
    if isinstance(a, Sym) or isinstance(b, Sym):
        return ite(a >= b, a, b)
    return a if a >= b else b


def e_min(a, b):
    if isinstance(a, Sym) or isinstance(b, Sym):
        return ite(a <= b, a, b)
    return a if a <= b else b


def e_mul(a, b):
    # keep exact zeros exact (0 * sym == 0) to keep terms small
    if not isinstance(a, Sym) and a == 0:
        return 0
    if not isinstance(b, Sym) and b == 0:
        return 0
    return a * b


def e_div(a, b):
    if isinstance(a, Sym) or isinstance(b, Sym):
        return a / b
    if isinstance(a, float) or isinstance(b, float):
        return a / b
    if b == 0:
        raise Unsupported("division by exact zero in proxy arithmetic")
    return Fraction(a) / Fraction(b)


# ------------------------------------------------------------------ arithmetic


def _bin(f, *, truediv=False, boolop=None):
    def h(a, b, *, alpha=None, out=None, rounding_mode=None):
        if alpha is not None and alpha != 1:
            b = _mulh(b, alpha)
        dt = res_dtype(a, b, truediv=truediv)
        if boolop is not None and dt == torch.bool:
            return mk(_v2(boolop, E(a), E(b)), torch.bool)
        r = _v2(f, E(a), E(b))
        if rounding_mode == "floor":
            r = _v1(e_floor, r)
        elif rounding_mode == "trunc":
            r = _v1(e_trunc, r)
        return mk(r, dt)
    return h


_addh = _bin(operator.add, boolop=lambda x, y: lor(x, y))
_subh = _bin(operator.sub)
_mulh = _bin(e_mul, boolop=lambda x, y: land(x, y))
_divh = _bin(e_div, truediv=True)
reg("add", "__add__", "__radd__")(_addh)
reg("sub", "__sub__", "subtract")(_subh)
reg("mul", "__mul__", "__rmul__", "multiply")(_mulh)


@reg("div", "__truediv__", "true_divide", "divide")
def _div(a, b, *, rounding_mode=None):
    if rounding_mode is None:
        return _divh(a, b)
    dt = res_dtype(a, b)
    r = _v2(e_div, E(a), E(b))
    r = _v1(e_floor if rounding_mode == "floor" else e_trunc, r)
    return mk(r, dt)


@reg("__rsub__", "rsub")
def _rsub(a, b, **k):
    return _subh(b, a)


@reg("__rtruediv__", "__rdiv__")
def _rdiv(a, b):
    return _divh(b, a)


@reg("floor_divide", "__floordiv__")
def _floordiv(a, b):
    return mk(_v2(operator.floordiv, E(a), E(b)), res_dtype(a, b))


@reg("remainder", "__mod__", "fmod")
def _mod(a, b):
    return mk(_v2(operator.mod, E(a), E(b)), res_dtype(a, b))


@reg("neg", "__neg__", "negative")
def _neg(a):
    return mk(_v1(operator.neg, a._e), a.dtype)


@reg("abs", "__abs__", "absolute")
def _abs(a):
    return mk(_v1(e_abs, a._e), a.dtype)


@reg("pow", "__pow__")
def _pow(a, b):
    return mk(_v2(lambda x, y: core.sym_pow(x, y), E(a), E(b)), res_dtype(a, b))


@reg("__rpow__")
def _rpow(a, b):
    return mk(_v2(lambda x, y: core.sym_pow(y, x), E(a), E(b)), res_dtype(a, b))


@reg("square")
def _square(a):
    return _mulh(a, a)


@reg("reciprocal")
def _recip(a):
    return _divh(1, a)


SHADOW = {}     # data_ptr -> (real tensor, object array): symbolic content written IN PLACE into a real tensor


def dest(a):
    """object array that receives an in-place write into `a` (a SymTensor's contents, or the shadow of a real tensor)"""
    if isinstance(a, SymTensor):
        return a._e
    key = a.data_ptr()
    if key not in SHADOW:
        SHADOW[key] = (a, E(a).copy())
    return SHADOW[key][1]


def effective(t):
    """contents of a tensor as the code under test left them: proxy contents, shadow contents, or the real values"""
    if isinstance(t, SymTensor):
        return t._e
    hit = SHADOW.get(t.data_ptr())
    if hit is not None and tuple(hit[1].shape) == tuple(t.shape):
        return hit[1]
    return E(t)


def _inplace(h):
    def f(a, *args, **kw):
        r = h(a, *args, **kw)
        d = dest(a)
        d[...] = np.broadcast_to(E(r), d.shape)
        return a
    return f


reg("add_", "__iadd__")(_inplace(_addh))
reg("sub_", "__isub__")(_inplace(_subh))
reg("mul_", "__imul__")(_inplace(_mulh))
reg("div_", "__itruediv__")(_inplace(_div))


@reg("copy_")
def _copy_(a, b, non_blocking=False):
    src = E(b)
    d = dest(a)
    if isinstance(src, np.ndarray):
        d[...] = np.broadcast_to(src, d.shape)
    else:
        d[...] = src
    return a


@reg("fill_")
def _fill_(a, v):
    a._e[...] = E(v) if not isinstance(E(v), np.ndarray) else E(v).reshape(-1)[0]
    return a


@reg("zero_")
def _zero_(a):
    a._e[...] = 0
    return a


@reg("lerp")
def _lerp(a, end, weight):
    return _addh(a, _mulh(weight, _subh(end, a)))


reg("lerp_")(_inplace(_lerp))


@reg("addcmul")
def _addcmul(a, t1, t2, *, value=1):
    return _addh(a, _mulh(value, _mulh(t1, t2)))


# transcendental: uninterpreted with axioms
for _n in ("exp", "log", "tanh", "sqrt"):
    def _mkuf(n):
        def h(a):
            return mk(_v1(lambda x: uf_apply(n, x), a._e), a.dtype if a.dtype in FLOATS else torch.float32)
        return h
    reg(_n)(_mkuf(_n))


@reg("logsumexp")
def _logsumexp(a, dim, keepdim=False):
    ex = _v1(lambda x: uf_apply("exp", x), a._e)
    sm = _reduce(_psum, ex, dim, keepdim)
    return mk(_v1(lambda x: uf_apply("log", x), sm), a.dtype)


# random fills: the harness supplies the variates (fresh symbols within the documented contract)
class _Rng:
    provider = None


RNG = _Rng()


@reg("normal_")
def _normal_(a, mean=0, std=1, **k):
    p = RNG.provider
    if p is None:
        raise Unsupported("normal_ on a SymTensor without an RNG provider")
    d = dest(a)
    d[...] = E(p("normal", tuple(d.shape), mean, std))
    return a


@reg("uniform_")
def _uniform_(a, lo=0, hi=1, **k):
    p = RNG.provider
    if p is None:
        raise Unsupported("uniform_ on a SymTensor without an RNG provider")
    d = dest(a)
    d[...] = E(p("uniform", tuple(d.shape), lo, hi))
    return a


@reg("rand_like")
def _rand_like(a, **k):
    p = RNG.provider
    if p is None:
        raise Unsupported("rand_like on a SymTensor without an RNG provider")
    return mk(_full(E(p("uniform", tuple(a.shape), 0, 1))), a.dtype if a.dtype in FLOATS else torch.float32)


@reg("randn_like")
def _randn_like(a, **k):
    p = RNG.provider
    if p is None:
        raise Unsupported("randn_like on a SymTensor without an RNG provider")
    return mk(_full(E(p("normal", tuple(a.shape), 0, 1))), a.dtype if a.dtype in FLOATS else torch.float32)


# ------------------------------------------------------------------ comparisons / logic

for _n, _op in (("gt", operator.gt), ("lt", operator.lt), ("ge", operator.ge), ("le", operator.le),
                ("eq", operator.eq), ("ne", operator.ne)):
    def _mkcmp(op):
        def h(a, b):
            return mk(_v2(op, E(a), E(b)), torch.bool)
        return h
    reg(_n, f"__{_n}__", {"gt": "greater", "lt": "less", "ge": "greater_equal", "le": "less_equal", "eq": "eq", "ne": "not_equal"}[_n])(_mkcmp(_op))


@reg("equal")
def _equal(a, b):
    """torch.equal: same shape and same contents, as a Python bool (forks when symbolic)"""
    ea, eb = _full(E(a)), _full(E(b))
    if tuple(ea.shape) != tuple(eb.shape):
        return False
    return bool(land(*[x == y for x, y in zip(ea.reshape(-1), eb.reshape(-1))]))


@reg("logical_and", "__and__", "__rand__", "bitwise_and")
def _land(a, b):
    if res_dtype(a, b) != torch.bool:
        raise Unsupported("bitwise and on non-bool")
    return mk(_v2(lambda x, y: land(e_bool(x), e_bool(y)), E(a), E(b)), torch.bool)


@reg("logical_or", "__or__", "__ror__", "bitwise_or")
def _lor(a, b):
    if res_dtype(a, b) != torch.bool:
        raise Unsupported("bitwise or on non-bool")
    return mk(_v2(lambda x, y: lor(e_bool(x), e_bool(y)), E(a), E(b)), torch.bool)


@reg("logical_not", "__invert__", "bitwise_not")
def _lnot(a):
    if a.dtype != torch.bool and H is not None and _lnot is not None and a.dtype in INTS:
        # logical_not on ints is (x == 0); bitwise_not on ints is not modelled
        return mk(_v1(lambda x: lnot(e_bool(x)), a._e), torch.bool)
    return mk(_v1(lambda x: lnot(e_bool(x)), a._e), torch.bool)


@reg("any")
def _any(a, dim=None, keepdim=False):
    e = _v1(e_bool, a._e)
    if dim is None:
        return mk(_objarr(lor(*list(e.reshape(-1)))), torch.bool)
    r = np.apply_along_axis(lambda row: _objarr(lor(*list(row))), dim, e)
    if keepdim:
        r = np.expand_dims(r, dim)
    return mk(r.astype(object), torch.bool)


@reg("all")
def _all(a, dim=None, keepdim=False):
    e = _v1(e_bool, a._e)
    if dim is None:
        return mk(_objarr(land(*list(e.reshape(-1)))), torch.bool)
    r = np.apply_along_axis(lambda row: _objarr(land(*list(row))), dim, e)
    if keepdim:
        r = np.expand_dims(r, dim)
    return mk(r.astype(object), torch.bool)


@reg("where")
def _where(c, a=None, b=None):
    if a is None:
        raise Unsupported("where(cond) with symbolic data")
    dt = res_dtype(a, b)
    return mk(_v3(lambda cc, x, y: ite(e_bool(cc), x, y), E(c), E(a), E(b)), dt)


@reg("masked_fill")
def _masked_fill(a, mask, value):
    return mk(_v3(lambda cc, x, y: ite(e_bool(cc), y, x), E(mask), a._e, E(value)), a.dtype)


@reg("masked_fill_")
def _masked_fill_(a, mask, value):
    a._e[...] = _masked_fill(a, mask, value)._e
    return a


@reg("clamp", "clip")
def _clamp(a, min=None, max=None):
    r = a._e
    if min is not None:
        r = _v2(e_max, r, E(min))
    if max is not None:
        r = _v2(e_min, r, E(max))
    if r is a._e:
        r = r.copy()
    return mk(r, res_dtype(a, *( [min] if min is not None else []), *([max] if max is not None else [])))


reg("clamp_", "clip_")(_inplace(_clamp))


@reg("clamp_min")
def _clamp_min(a, m):
    return _clamp(a, min=m)


@reg("clamp_max")
def _clamp_max(a, m):
    return _clamp(a, max=m)


@reg("maximum")
def _maximum(a, b):
    return mk(_v2(e_max, E(a), E(b)), res_dtype(a, b))


@reg("minimum")
def _minimum(a, b):
    return mk(_v2(e_min, E(a), E(b)), res_dtype(a, b))


@reg("relu")
def _relu(a):
    return _clamp(a, min=0)


@reg("sign")
def _sign(a):
    return mk(_v1(lambda x: ite(x > 0, 1, ite(x < 0, -1, 0)), a._e), a.dtype)


# ------------------------------------------------------------------ reductions


def _reduce(fn, e, dim, keepdim):
    if dim is None:
        flat = list(e.reshape(-1))
        r = _objarr(fn(flat))
        if keepdim:
            r = r.reshape((1,) * e.ndim)
        return r
    if isinstance(dim, (tuple, list)):
        r = e
        for d in sorted([dd % e.ndim for dd in dim], reverse=True):
            r = _reduce(fn, r, d, keepdim)
        return r
    dim = dim % e.ndim if e.ndim else 0
    moved = np.moveaxis(e, dim, -1)
    out = np.empty(moved.shape[:-1], dtype=object)
    for idx in np.ndindex(*moved.shape[:-1]):
        out[idx] = fn(list(moved[idx]))
    if keepdim:
        out = np.expand_dims(out, dim)
    return out


def _psum(xs):
    r = 0
    for x in xs:
        r = r + x
    return r


@reg("sum")
def _sum(a, dim=None, keepdim=False, dtype=None):
    dt = a.dtype if a.dtype in FLOATS else torch.int64
    return mk(_reduce(_psum, _v1(e_toint, a._e) if a.dtype == torch.bool else a._e, dim, keepdim), dt)


@reg("mean")
def _mean(a, dim=None, keepdim=False, dtype=None):
    def f(xs):
        return e_div(_psum(xs), len(xs))
    return mk(_reduce(f, a._e, dim, keepdim), a.dtype)


@reg("prod")
def _prod(a, dim=None, keepdim=False, dtype=None):
    def f(xs):
        r = 1
        for x in xs:
            r = e_mul(r, x)
        return r
    return mk(_reduce(f, a._e, dim, keepdim), a.dtype)


def _argbest(xs, better):
    """first index of the best element (torch.argmax returns the first maximal index on CPU)"""
    best = 0
    for j in range(1, len(xs)):
        if bool(better(xs[j], xs[best])):
            best = j
    return best


def _fold(xs, f):
    r = xs[0]
    for x in xs[1:]:
        r = f(r, x)
    return r


class _MinMax(tuple):
    @property
    def values(self):
        return self[0]

    @property
    def indices(self):
        return self[1]


def _mkminmax(emm, better):
    def h(a, dim=None, keepdim=False, other=None, axis=None):
        if dim is None and axis is not None:
            dim = axis
        if dim is None and other is not None:
            dim = other
        if isinstance(dim, torch.Tensor) or (dim is not None and not isinstance(dim, int)):
            return mk(_v2(emm, E(a), E(dim)), res_dtype(a, dim))
        if dim is None:
            return mk(_reduce(lambda xs: _fold(xs, emm), a._e, None, False), a.dtype)
        vals = _reduce(lambda xs: _fold(xs, emm), a._e, dim, keepdim)
        idxs = _reduce(lambda xs: _argbest(xs, better), a._e, dim, keepdim)
        return _MinMax((mk(vals, a.dtype), mk(idxs, torch.int64)))
    return h


reg("max")(_mkminmax(e_max, operator.gt))
reg("min")(_mkminmax(e_min, operator.lt))


@reg("amax")
def _amax(a, dim=None, keepdim=False):
    return mk(_reduce(lambda xs: _fold(xs, e_max), a._e, dim, keepdim), a.dtype)


@reg("amin")
def _amin(a, dim=None, keepdim=False):
    return mk(_reduce(lambda xs: _fold(xs, e_min), a._e, dim, keepdim), a.dtype)


@reg("argmax")
def _argmax(a, dim=None, keepdim=False):
    return mk(_reduce(lambda xs: _argbest(xs, operator.gt), a._e, dim, keepdim), torch.int64)


@reg("argmin")
def _argmin(a, dim=None, keepdim=False):
    return mk(_reduce(lambda xs: _argbest(xs, operator.lt), a._e, dim, keepdim), torch.int64)


# ------------------------------------------------------------------ shape ops (views share memory via numpy)


def _view(r, like):
    return mk(r if isinstance(r, np.ndarray) else _objarr(r), like.dtype)


@reg("reshape", "view")
def _reshape(a, *shape, dtype=None):
    shape = _shape_args(shape)
    return _view(a._e.reshape(shape), a)


@reg("view_as", "reshape_as")
def _view_as(a, b):
    return _view(a._e.reshape(tuple(b.shape)), a)


@reg("flatten")
def _flatten(a, start_dim=0, end_dim=-1):
    nd = a._e.ndim
    if nd == 0:
        return _view(a._e.reshape(1), a)
    s, e = start_dim % nd, end_dim % nd
    shp = a._e.shape[:s] + (-1,) + a._e.shape[e + 1:]
    return _view(a._e.reshape(shp), a)


@reg("squeeze")
def _squeeze(a, dim=None):
    if dim is None:
        return _view(np.squeeze(a._e), a)
    if isinstance(dim, int):
        dim = (dim,)
    dims = tuple(d % max(a._e.ndim, 1) for d in dim if a._e.ndim and a._e.shape[d] == 1)
    return _view(np.squeeze(a._e, dims) if dims else a._e, a)


@reg("unsqueeze")
def _unsqueeze(a, dim):
    if dim < 0:
        dim = dim + a._e.ndim + 1
    return _view(np.expand_dims(a._e, dim), a)


@reg("swapaxes", "transpose", "swapdims")
def _swap(a, i, j):
    return _view(a._e.swapaxes(i, j), a)


@reg("permute")
def _permute(a, *dims):
    return _view(a._e.transpose(_shape_args(dims)), a)


@reg("movedim", "moveaxis")
def _movedim(a, s, d):
    return _view(np.moveaxis(a._e, s, d), a)


@reg("prop_T", "t", "prop_mT")
def _T(a):
    return _view(a._e.T, a)


@reg("expand")
def _expand(a, *shape):
    shape = _shape_args(shape)
    shape = tuple(a._e.shape[i - (len(shape) - a._e.ndim)] if s == -1 else s for i, s in enumerate(shape))
    return mk(np.broadcast_to(a._e, shape).copy(), a.dtype)


@reg("expand_as")
def _expand_as(a, b):
    return mk(np.broadcast_to(_full(E(a)), tuple(b.shape)).copy(), a.dtype)


@reg("broadcast_to")
def _bcast(a, shape):
    return mk(np.broadcast_to(a._e, tuple(shape)).copy(), a.dtype)


@reg("repeat")
def _repeat(a, *reps):
    return mk(np.tile(a._e, _shape_args(reps)), a.dtype)


@reg("repeat_interleave")
def _repeat_interleave(a, repeats, dim=None):
    return mk(np.repeat(a._e, repeats, axis=dim), a.dtype)


@reg("stack")
def _stack(ts, dim=0):
    return mk(np.stack([_full(E(t)) for t in ts], axis=dim), res_dtype(*ts))


def _full(e):
    return e if isinstance(e, np.ndarray) else _objarr(e)


@reg("cat", "concat", "concatenate")
def _cat(ts, dim=0):
    return mk(np.concatenate([_full(E(t)) for t in ts], axis=dim), res_dtype(*ts))


@reg("hstack")
def _hstack(ts):
    return mk(np.hstack([_full(E(t)) for t in ts]), res_dtype(*ts))


@reg("vstack")
def _vstack(ts):
    return mk(np.vstack([_full(E(t)) for t in ts]), res_dtype(*ts))


@reg("split")
def _split(a, split_size, dim=0):
    n = a._e.shape[dim]
    if isinstance(split_size, int):
        cuts = list(range(split_size, n, split_size))
    else:
        cuts = list(np.cumsum(list(split_size))[:-1])
        if sum(split_size) != n:
            raise RuntimeError(f"split_with_sizes expects split_sizes to sum exactly to {n}")
    return tuple(_view(x, a) for x in np.split(a._e, cuts, axis=dim))


@reg("chunk")
def _chunk(a, chunks, dim=0):
    n = a._e.shape[dim]
    size = -(-n // chunks)
    return _split(a, size, dim)


@reg("unbind")
def _unbind(a, dim=0):
    return tuple(_view(x, a) for x in np.moveaxis(a._e, dim, 0))


@reg("tolist")
def _tolist(a):
    return a._e.tolist()


@reg("__iter__")
def _iter(a):
    return iter(_unbind(a, 0))


@reg("flip")
def _flip(a, dims):
    return mk(np.flip(a._e, dims).copy(), a.dtype)


@reg("roll")
def _roll(a, shifts, dims=None):
    return mk(np.roll(a._e, shifts, dims), a.dtype)


@reg("tril")
def _tril(a, diagonal=0):
    m = np.tril(np.ones(a._e.shape[-2:], dtype=bool), diagonal)
    return mk(np.where(m, a._e, 0).astype(object), a.dtype)


@reg("diag", "diagonal")
def _diag(a, *k, **kw):
    if a._e.ndim == 1:
        n = a._e.shape[0]
        out = np.empty((n, n), dtype=object)
        out[...] = 0
        for i in range(n):
            out[i, i] = a._e[i]
        return mk(out, a.dtype)
    return mk(np.diagonal(a._e).copy(), a.dtype)


# ------------------------------------------------------------------ constructors-from-like


def _filled(shape, v):
    e = np.empty(shape, dtype=object)
    e[...] = v
    return e


@reg("zeros_like")
def _zeros_like(a, dtype=None, **kw):
    dtype = dtype or a.dtype
    return mk(_filled(a._e.shape, False if dtype == torch.bool else 0), dtype)


@reg("ones_like")
def _ones_like(a, dtype=None, **kw):
    dtype = dtype or a.dtype
    return mk(_filled(a._e.shape, True if dtype == torch.bool else 1), dtype)


@reg("full_like")
def _full_like(a, v, dtype=None, **kw):
    return mk(_filled(a._e.shape, v), dtype or a.dtype)


@reg("empty_like")
def _empty_like(a, dtype=None, **kw):
    return mk(_filled(a._e.shape, 0), dtype or a.dtype)


@reg("new_zeros")
def _new_zeros(a, *shape, dtype=None, **kw):
    return mk(_filled(_shape_args(shape), 0), dtype or a.dtype)


@reg("new_ones")
def _new_ones(a, *shape, dtype=None, **kw):
    return mk(_filled(_shape_args(shape), 1), dtype or a.dtype)


@reg("new_full")
def _new_full(a, shape, v, dtype=None, **kw):
    return mk(_filled(tuple(shape), v), dtype or a.dtype)


@reg("new_tensor")
def _new_tensor(a, data, dtype=None, **kw):
    return mk(_objarr(data), dtype or a.dtype)


# ------------------------------------------------------------------ conversions


def _convert(a, dtype):
    if dtype == a.dtype:
        return a
    if dtype in FLOATS:
        if a.dtype in FLOATS:
            return mk(a._e, dtype)      # alias contents; precision is outside real mode
        return mk(_v1(e_toreal, a._e), dtype)
    if dtype in INTS:
        if a.dtype in INTS:
            return mk(a._e, dtype)
        return mk(_v1(e_toint, a._e), dtype)
    if dtype == torch.bool:
        return mk(_v1(e_bool, a._e), torch.bool)
    raise Unsupported(f"conversion to {dtype}")


reg("float")(lambda a, **k: _convert(a, torch.float32))
reg("double")(lambda a, **k: _convert(a, torch.float64))
reg("half")(lambda a, **k: _convert(a, torch.float16))
reg("long")(lambda a, **k: _convert(a, torch.int64))
reg("int")(lambda a, **k: _convert(a, torch.int32))
reg("bool")(lambda a, **k: _convert(a, torch.bool))


@reg("to", "type", "type_as")
def _to(a, *args, **kw):
    dtype = kw.get("dtype")
    for x in args:
        if isinstance(x, torch.dtype):
            dtype = x
        elif isinstance(x, torch.Tensor):
            dtype = x.dtype
    r = a if dtype is None else _convert(a, dtype)
    if kw.get("copy") and r is a:
        r = mk(a._e.copy(), a.dtype)
    return r


reg("cpu", "cuda", "detach", "contiguous", "requires_grad_", "detach_", "pin_memory", "share_memory_", "prop_data",
    "prop_real", "resolve_conj", "resolve_neg", "alias", "coalesce")(lambda a, *x, **k: a)


@reg("propset_data")
def _set_data(a, v):
    ev = E(v)
    if not isinstance(a, SymTensor):
        # `real_param.data = symbolic_tensor`: the real tensor keeps its storage, its effective content is shadowed
        if tuple(ev.shape) != tuple(a.shape):
            raise Unsupported(".data assignment with a different shape onto a real tensor")
        SHADOW[a.data_ptr()] = (a, np.array(ev, dtype=object, copy=True))
        return None
    if tuple(ev.shape) != tuple(a._e.shape):
        raise Unsupported(".data assignment with a different shape on a SymTensor")
    a._e = ev
    return None


@reg("propset_requires_grad", "propset_grad")
def _set_ignored(a, v):
    a._symgrad = v if not isinstance(v, bool) else a._symgrad
    return None


@reg("prop_grad")
def _get_grad(a):
    return a._symgrad


@reg("clone")
def _clone(a, **k):
    return mk(a._e.copy(), a.dtype)


@reg("numpy", "__array__")
def _numpy(a, *x, **k):
    return a._e


@reg("item")
def _item(a):
    if a._e.size != 1:
        raise RuntimeError("a Tensor with %d elements cannot be converted to Scalar" % a._e.size)
    x = a._e.reshape(-1)[0]
    return core.Q(x) if type(x) is Fraction else x


@reg("__bool__")
def _tbool(a):
    if a._e.size != 1:
        raise RuntimeError("Boolean value of Tensor with more than one value is ambiguous")
    return bool(e_bool(a._e.reshape(-1)[0]))


@reg("__int__", "__index__")
def _tint(a):
    if a._e.size != 1:
        raise TypeError("only integer tensors of a single element can be converted to an index")
    x = a._e.reshape(-1)[0]
    return concretize(x) if isinstance(x, Sym) else int(x)


@reg("__float__")
def _tfloat(a):
    x = a._e.reshape(-1)[0]
    if isinstance(x, Sym):
        raise Unsupported("float(SymTensor)")
    return float(x)


@reg("backward", "retain_grad", "register_hook")
def _noop(*a, **k):
    return None


@reg("floor")
def _floor(a):
    return mk(_v1(e_floor, a._e), a.dtype)     # dtype stays float in torch; contents are integer-valued


@reg("ceil")
def _ceil(a):
    return mk(_v1(e_ceil, a._e), a.dtype)


@reg("trunc")
def _trunc(a):
    return mk(_v1(e_trunc, a._e), a.dtype)


@reg("isnan", "isinf")
def _isnan(a):
    return mk(_filled(a._e.shape, False), torch.bool)


@reg("isfinite")
def _isfinite(a):
    return mk(_filled(a._e.shape, True), torch.bool)


@reg("nan_to_num")
def _nan_to_num(a, *x, **k):
    return a


# ------------------------------------------------------------------ indexing


def cidx(i):
    """index component -> something numpy accepts; symbolic integer/bool indices are concretised by forking"""
    if isinstance(i, SymTensor):
        if i.dtype == torch.bool:
            flat = [bool(x) for x in i._e.reshape(-1)]
            return np.array(flat, dtype=bool).reshape(i._e.shape)
        flat = [concretize(x) if isinstance(x, Sym) else int(x) for x in i._e.reshape(-1)]
        return np.array(flat, dtype=np.int64).reshape(i._e.shape)
    if isinstance(i, torch.Tensor):
        return i.detach().cpu().numpy()
    if isinstance(i, Sym):
        return concretize(i)
    if isinstance(i, range):
        return list(i)
    if isinstance(i, (list,)):
        return [cidx(j) if isinstance(j, (Sym, torch.Tensor)) else j for j in i]
    if isinstance(i, slice):
        f = lambda v: concretize(v) if isinstance(v, Sym) else v
        return slice(f(i.start), f(i.stop), f(i.step))
    if isinstance(i, np.ndarray) and i.dtype == object:
        flat = [concretize(x) if isinstance(x, Sym) else x for x in i.reshape(-1)]
        return np.array(flat).reshape(i.shape)
    return i


def _cidx_all(idx):
    return tuple(cidx(i) for i in idx) if isinstance(idx, tuple) else cidx(idx)


@reg("__getitem__")
def _getitem(a, idx):
    if not isinstance(a, SymTensor):
        # real tensor indexed by a SymTensor
        return torch.Tensor.__getitem__(a, _to_real_index(idx))
    try:
        r = a._e[_cidx_all(idx)]
    except IndexError as ex:
        raise IndexError(str(ex)) from None
    return mk(r if isinstance(r, np.ndarray) else _objarr(r), a.dtype)


def _to_real_index(idx):
    def f(i):
        j = cidx(i)
        if isinstance(j, np.ndarray):
            return torch.from_numpy(j)
        return j
    return tuple(f(i) for i in idx) if isinstance(idx, tuple) else f(idx)


def _has_real(ev):
    xs = ev.reshape(-1) if isinstance(ev, np.ndarray) else [ev]
    return any(isinstance(x, (core.SReal, float, core.Q)) for x in xs)


@reg("__setitem__")
def _setitem(a, idx, v):
    ev = E(v)
    if isinstance(ev, np.ndarray) and ev.ndim == 0:
        ev = ev[()]
    # writing into an integer tensor converts like torch does (truncation towards zero)
    src_dtype = v.dtype if isinstance(v, torch.Tensor) else None
    if a.dtype in INTS and (src_dtype in FLOATS or (src_dtype is None and _has_real(ev))):
        ev = _v1(e_toint, ev) if isinstance(ev, np.ndarray) else e_toint(ev)
    dest(a)[_cidx_all(idx)] = ev        # a real destination is shadowed (see SHADOW)
    return None


@reg("gather")
def _gather(a, dim, index, **k):
    ix = cidx(index) if isinstance(index, torch.Tensor) else np.asarray(index)
    return mk(np.take_along_axis(a._e, ix, axis=dim), a.dtype)


@reg("take_along_dim")
def _take_along_dim(a, index, dim):
    return _gather(a, dim, index)


@reg("scatter", "scatter_")
def _scatter(a, dim, index, src=None, value=None, **k):
    ix = cidx(index)
    out = a._e.copy()
    s = E(src) if src is not None else value
    if not isinstance(s, np.ndarray):
        s = _filled(ix.shape, s)
    np.put_along_axis(out, ix, s[tuple(slice(0, n) for n in ix.shape)], axis=dim)
    return mk(out, a.dtype)


@reg("index_select")
def _index_select(a, dim, index):
    return mk(np.take(a._e, cidx(index), axis=dim), a.dtype)


@reg("index_add_")
def _index_add_(a, dim, index, source, *, alpha=1):
    idx = cidx(index).reshape(-1)
    src = _full(E(source))
    if dim != 0:
        raise Unsupported("index_add_ dim != 0")
    if len(idx) != src.shape[0]:
        raise RuntimeError("index_add_(): Number of indices should be equal to source.size(dim)")
    for k, i in enumerate(idx):
        if not (-a._e.shape[0] <= i < a._e.shape[0]):
            raise IndexError("index out of range in self")
        a._e[i] = a._e[i] + (src[k] * alpha if alpha != 1 else src[k])
    return a


@reg("index_add")
def _index_add(a, dim, index, source, *, alpha=1):
    return _index_add_(_clone(a), dim, index, source, alpha=alpha)


@reg("index_fill_")
def _index_fill_(a, dim, index, value):
    idx = cidx(index).reshape(-1)
    sl = [slice(None)] * a._e.ndim
    sl[dim] = idx
    a._e[tuple(sl)] = value
    return a


@reg("one_hot")
def _one_hot(a, num_classes=-1):
    if num_classes < 0:
        raise Unsupported("one_hot without num_classes on symbolic data")
    out = np.empty(a._e.shape + (num_classes,), dtype=object)
    for idx in np.ndindex(*a._e.shape):
        x = a._e[idx]
        for k in range(num_classes):
            out[idx + (k,)] = core.lower(core.zint(ite(x == k, 1, 0))) if isinstance(x, Sym) else int(x == k)
    return mk(out, torch.int64)


# ------------------------------------------------------------------ linear algebra (small, exact)


def _matmul_e(A, B):
    A, B = _full(A), _full(B)
    if A.ndim == 1 and B.ndim == 1:
        return _objarr(_psum([e_mul(x, y) for x, y in zip(A, B)]))
    if A.ndim == 1:
        return _matmul_e(A[None, :], B)[..., 0, :]
    if B.ndim == 1:
        return _matmul_e(A, B[:, None])[..., 0]
    if A.shape[-1] != B.shape[-2]:
        raise RuntimeError(f"mat1 and mat2 shapes cannot be multiplied ({A.shape} and {B.shape})")
    batch = np.broadcast_shapes(A.shape[:-2], B.shape[:-2])
    A = np.broadcast_to(A, batch + A.shape[-2:])
    B = np.broadcast_to(B, batch + B.shape[-2:])
    out = np.empty(batch + (A.shape[-2], B.shape[-1]), dtype=object)
    for bi in np.ndindex(*batch):
        for i in range(A.shape[-2]):
            for j in range(B.shape[-1]):
                out[bi + (i, j)] = _psum([e_mul(A[bi + (i, k)], B[bi + (k, j)]) for k in range(A.shape[-1])])
    return out


@reg("matmul", "mm", "bmm", "mv", "dot", "__matmul__")
def _matmul(a, b):
    return mk(_matmul_e(E(a), E(b)), res_dtype(a, b))


@reg("__rmatmul__")
def _rmatmul(a, b):
    return mk(_matmul_e(E(b), E(a)), res_dtype(a, b))


@reg("outer", "ger")
def _outer(a, b):
    A, B = _full(E(a)), _full(E(b))
    return mk(_v2(e_mul, A[:, None], B[None, :]), res_dtype(a, b))


@reg("linear")
def _linear(x, w, b=None):
    r = _matmul_e(E(x), _full(E(w)).T)
    if b is not None:
        r = r + E(b)
    return mk(r, res_dtype(x, w))


@reg("mse_loss")
def _mse(a, b, reduction="mean", **k):
    d = _subh(a, b)
    sq = _mulh(d, d)
    if reduction == "none":
        return sq
    return _mean(sq) if reduction == "mean" else _sum(sq)


# ------------------------------------------------------------------ symbolic tensor constructors used by harnesses / shims


def from_any(x, dtype=None):
    """list / ndarray(object) / scalar possibly containing proxies -> SymTensor"""
    return mk(_objarr(x) if not isinstance(x, np.ndarray) else (x if x.dtype == object else x.astype(object)), dtype)


def has_sym(x):
    if isinstance(x, Sym) or isinstance(x, SymTensor) or isinstance(x, Fraction):
        return True
    if isinstance(x, np.ndarray):
        return x.dtype == object
    if isinstance(x, (list, tuple)):
        return any(has_sym(y) for y in x)
    return False


# ------------------------------------------------------------------ scalar-proxy (x) tensor hook for symx.core


def _tensor_binop(name, a, b):
    h = {"add": _addh, "sub": _subh, "mul": _mulh, "truediv": _divh, "floordiv": _floordiv, "mod": _mod, "pow": _pow,
         "lt": H["lt"], "le": H["le"], "gt": H["gt"], "ge": H["ge"], "eq": H["eq"], "ne": H["ne"]}[name]
    OPS_HIT.add("scalar-proxy:" + name)
    return h(a, b)


core._TENSOR_TYPES = (torch.Tensor,)
core._TENSOR_BINOP = _tensor_binop
