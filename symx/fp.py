"""symx.fp — IEEE-754 double proxies (z3 FloatingPoint, round-nearest-even) for the few checks where rounding itself is the
subject.  Arithmetic builds z3 FP terms, comparisons return SBool (so branches fork exactly like in real mode)."""
from __future__ import annotations

import struct

import z3

from . import core
from .core import SBool, Sym

F64 = z3.Float64()
RNE = z3.RNE()


def fpval(x):
    if isinstance(x, SFloat):
        return x.z
    if isinstance(x, (int, float)):
        return z3.FPVal(float(x), F64)
    raise TypeError(f"fpval({type(x)})")


def to_float(zv):
    """z3 FP numeral -> the exact Python float"""
    bv = z3.simplify(z3.fpToIEEEBV(zv))
    return struct.unpack(">d", bv.as_long().to_bytes(8, "big"))[0]


class SFloat(Sym):
    __slots__ = ()

    def _b(self, o, f, rev=False):
        try:
            zo = fpval(o)
        except TypeError:
            return NotImplemented
        a, b = (zo, self.z) if rev else (self.z, zo)
        return SFloat(z3.simplify(f(a, b)))

    def __add__(self, o):
        return self._b(o, lambda a, b: z3.fpAdd(RNE, a, b))

    def __radd__(self, o):
        return self._b(o, lambda a, b: z3.fpAdd(RNE, a, b), True)

    def __sub__(self, o):
        return self._b(o, lambda a, b: z3.fpSub(RNE, a, b))

    def __rsub__(self, o):
        return self._b(o, lambda a, b: z3.fpSub(RNE, a, b), True)

    def __mul__(self, o):
        return self._b(o, lambda a, b: z3.fpMul(RNE, a, b))

    def __rmul__(self, o):
        return self._b(o, lambda a, b: z3.fpMul(RNE, a, b), True)

    def __truediv__(self, o):
        return self._b(o, lambda a, b: z3.fpDiv(RNE, a, b))

    def __rtruediv__(self, o):
        return self._b(o, lambda a, b: z3.fpDiv(RNE, a, b), True)

    def __neg__(self):
        return SFloat(z3.simplify(z3.fpNeg(self.z)))

    def _c(self, o, f):
        try:
            zo = fpval(o)
        except TypeError:
            return NotImplemented
        return core.lower(f(self.z, zo))

    def __lt__(self, o):
        return self._c(o, z3.fpLT)

    def __le__(self, o):
        return self._c(o, z3.fpLEQ)

    def __gt__(self, o):
        return self._c(o, z3.fpGT)

    def __ge__(self, o):
        return self._c(o, z3.fpGEQ)

    def __eq__(self, o):
        if o is None:
            return False
        return self._c(o, z3.fpEQ)

    def __ne__(self, o):
        if o is None:
            return True
        return self._c(o, z3.fpNEQ)

    __hash__ = Sym.__hash__

    def __bool__(self):
        return core.decide(z3.Not(z3.fpIsZero(self.z)))

    def __float__(self):
        raise core.Unsupported("float() of a symbolic double")


def new_fp(v, name):
    """input of the mode-aware factory `v`: a fresh double (sym) or the model's exact double (concrete modes)"""
    name = v._name(name)
    if v.mode == "sym":
        c = core.ctx()
        z = z3.FP(name, F64)
        c.inputs[name] = z
        return SFloat(z)
    x = v._lookup(name, 0.0)
    return float(x)


def finite_in(x, lo, hi):
    """assumption helper: lo <= x <= hi (hence finite, not NaN)"""
    if isinstance(x, SFloat):
        return core.land(x >= lo, x <= hi)
    return lo <= x <= hi


def feq(a, b):
    """EXACT equality of doubles (no tolerance): the subject is rounding"""
    if isinstance(a, SFloat) or isinstance(b, SFloat):
        return a == b if isinstance(a, SFloat) else b == a
    return float(a) == float(b)
