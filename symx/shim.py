"""symx.shim — module-scoped rebinding of names in the module under test (restored afterwards)."""
from __future__ import annotations

import contextlib
import types

import numpy as np
import torch

from . import core
from .core import Sym
from .tensor import SymTensor, mk, has_sym, from_any, _objarr, _filled


@contextlib.contextmanager
def patched(*targets):
    """targets: (object_or_module, name, value).  Sets attributes and restores them on exit."""
    saved = []
    missing = object()
    try:
        for obj, name, value in targets:
            if isinstance(obj, types.ModuleType):
                old = obj.__dict__.get(name, missing)
            else:
                old = obj.__dict__.get(name, missing) if hasattr(obj, "__dict__") else getattr(obj, name, missing)
            saved.append((obj, name, old))
            setattr(obj, name, value)
        yield
    finally:
        for obj, name, old in reversed(saved):
            if old is missing:
                try:
                    delattr(obj, name)
                except AttributeError:
                    pass
            else:
                setattr(obj, name, old)


def require(obj, *names):
    """Internal names a harness depends on; a rename is a harness error with a clear message, never a VIOLATION."""
    for n in names:
        if not hasattr(obj, n):
            raise core.HarnessError(f"expected attribute {n!r} on {getattr(obj, '__name__', type(obj).__name__)} is missing (renamed?)")


class _TensorMeta(type):
    def __instancecheck__(cls, obj):
        return isinstance(obj, torch.Tensor)

    def __call__(cls, *a, **k):
        if len(a) == 1 and has_sym(a[0]):
            return from_any(a[0], torch.float32)
        return torch.Tensor(*a, **k)


class ShimTensor(metaclass=_TensorMeta):
    pass


class ShimTorch(types.ModuleType):
    """Forwarding namespace for `torch`: constructors accept proxies, everything else is the real module."""

    def __init__(self, overrides=None):
        super().__init__("torch")
        self.__dict__["_ov"] = dict(overrides or {})

    def __getattr__(self, name):
        ov = self.__dict__["_ov"]
        if name in ov:
            return ov[name]
        return getattr(torch, name)

    Tensor = ShimTensor

    @staticmethod
    def from_numpy(a):
        return mk(a) if a.dtype == object else torch.from_numpy(a)

    @staticmethod
    def as_tensor(a, dtype=None, device=None):
        if has_sym(a):
            t = a if isinstance(a, SymTensor) else from_any(a)
            return t.to(dtype) if dtype is not None else t
        return torch.as_tensor(a, dtype=dtype, device=device)

    @staticmethod
    def tensor(a, dtype=None, device=None, requires_grad=False):
        if has_sym(a):
            t = mk(a._e.copy(), a.dtype) if isinstance(a, SymTensor) else from_any(a)
            return t.to(dtype) if dtype is not None else t
        return torch.tensor(a, dtype=dtype, device=device, requires_grad=requires_grad)

    @staticmethod
    def full(size, fill_value, **kw):
        if isinstance(fill_value, Sym):
            return mk(_filled(tuple(size), fill_value), kw.get("dtype"))
        return torch.full(size, fill_value, **kw)

    @staticmethod
    def arange(*a, **k):
        # integer proxies as range bounds are concretised (forking on their value)
        return torch.arange(*[x.__index__() if isinstance(x, core.SInt) else x for x in a], **k)

    @staticmethod
    def symzeros(*size, dtype=torch.float32):
        return mk(_filled(tuple(size), 0), dtype)


def unnest(r):
    """numpy merges nested numeric arrays into one array, but keeps 0-d/n-d *object* arrays as elements of an
    object array.  Restore the numeric behaviour for object arrays of proxies."""
    if isinstance(r, np.ndarray) and r.dtype == object and r.size:
        flat = list(r.reshape(-1))
        if any(isinstance(e, np.ndarray) and e.ndim == 0 for e in flat):
            flat = [e[()] if isinstance(e, np.ndarray) and e.ndim == 0 else e for e in flat]
            out = np.empty(len(flat), dtype=object)
            for i, e in enumerate(flat):
                out[i] = e
            r = out.reshape(r.shape)
        if all(isinstance(e, np.ndarray) for e in flat):
            shp = flat[0].shape
            if all(e.shape == shp for e in flat):
                inner = [unnest(e if e.dtype == object else e.astype(object)) for e in flat]
                out = np.empty((len(inner),) + inner[0].shape, dtype=object)
                for i, e in enumerate(inner):
                    out[i] = e
                return out.reshape(r.shape + inner[0].shape)
    return r


def sym_np_array(x, *a, **k):
    r = np.array(x, *a, **k)
    return unnest(r)


class ShimNumpy(types.ModuleType):
    def __init__(self, overrides=None):
        super().__init__("numpy")
        ov = {"array": sym_np_array, "asarray": lambda x, *a, **k: unnest(np.asarray(x, *a, **k))}
        ov.update(overrides or {})
        self.__dict__["_ov"] = ov

    def __getattr__(self, name):
        ov = self.__dict__["_ov"]
        if name in ov:
            return ov[name]
        return getattr(np, name)


def sym_int(x):
    """`int` for modules under test"""
    if isinstance(x, core.SReal):
        return x.__trunc__()
    if isinstance(x, core.SInt):
        return x
    if isinstance(x, core.SBool):
        return core.lower(core.zint(x))
    if isinstance(x, SymTensor):
        return sym_int(x.item())
    if isinstance(x, np.ndarray) and x.dtype == object and x.size == 1:
        return sym_int(x.reshape(-1)[0])
    from fractions import Fraction
    if isinstance(x, Fraction):
        import math
        return math.trunc(x)
    return int(x)


def sym_float(x):
    if isinstance(x, core.SReal):
        return x
    if isinstance(x, (core.SInt, core.SBool)):
        return core.lower(core.zreal(x))
    if isinstance(x, SymTensor):
        return sym_float(x.item())
    if isinstance(x, np.ndarray) and x.dtype == object and x.size == 1:
        return sym_float(x.reshape(-1)[0])
    from fractions import Fraction
    if isinstance(x, Fraction):
        return x
    return float(x)


class _IntMeta(type):
    def __instancecheck__(cls, obj):
        return isinstance(obj, (int, core.SInt))

    def __call__(cls, *a, **k):
        return sym_int(*a, **k) if len(a) == 1 and not k else int(*a, **k)


class ShimInt(metaclass=_IntMeta):
    pass


class _FloatMeta(type):
    def __instancecheck__(cls, obj):
        from fractions import Fraction
        return isinstance(obj, (float, core.SReal, Fraction))

    def __call__(cls, *a, **k):
        return sym_float(*a, **k) if len(a) == 1 else float(*a, **k)


class ShimFloat(metaclass=_FloatMeta):
    pass
