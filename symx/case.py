"""symx.case — what a harness provides."""
from __future__ import annotations

import hashlib
import inspect


class Ob:
    """One obligation produced by a run.

    cond   : Sym/bool (sym mode) or bool (concrete modes)
    site   : key identifying the failing site/input class (for known_findings.json)
    expect : "unsat" (a real obligation) or "sat" (a sensitivity twin: a deliberately wrong oracle that the
             solver must refute on at least one path, otherwise the oracle cannot see anything)
    obs    : optional list of numeric observables compared between proxy and real runs (validation)
    """

    __slots__ = ("name", "cond", "site", "expect", "obs")

    def __init__(self, name, cond, site=None, expect="unsat", obs=None):
        self.name = name
        self.cond = cond
        self.site = site
        self.expect = expect
        self.obs = obs


class Case:
    """A harness case: one bounded configuration of one piece of real code."""

    name = "case"
    bounds = {}
    functions = ()          # real function objects executed (qualified name + source hash go to evidence)
    stubs = ()              # textual list of stubs
    assumptions = ()        # textual list of assumptions
    outside = ()            # what is outside the claim
    site = None             # default site key for violations of this case
    exception_site = None   # site key for "real code raised" violations (defaults to exc type @ function)
    allowed_exceptions = () # exception classes the property allows the real code to raise on assumed inputs
    max_paths = 20000
    float_dtype = None

    def run(self, v):
        raise NotImplementedError

    # helpers
    def describe(self):
        return {"name": self.name, "bounds": self.bounds}


def fn_fingerprint(fn):
    try:
        src = inspect.getsource(fn)
        file = inspect.getsourcefile(fn)
    except (OSError, TypeError):
        return {"name": getattr(fn, "__qualname__", str(fn)), "sha256": None}
    mod = getattr(fn, "__module__", "?")
    return {"name": f"{mod}.{getattr(fn, '__qualname__', fn)}", "file": file,
            "sha256": hashlib.sha256(src.encode()).hexdigest()[:16]}
