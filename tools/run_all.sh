#!/bin/sh
# tools/run_all.sh [quick|thorough] : run every claimed check on the current tree (rewrites evidence/*.json)
cd "$(dirname "$0")/.." || exit 2
T=${1:-quick}
git -C /repo diff --quiet || { echo "/repo has uncommitted changes"; exit 3; }
rc=0
for p in $(python3 -c "import json;print(' '.join(c['property_id'] for c in json.load(open('MANIFEST.json'))['checks']))"); do
  DS_ACCELERATOR=cpu ./check $p $T 2>&1 | grep -v accelerator | grep -E "^\[|VIOLATION|HARNESS" | cut -c1-300
  [ ${PIPESTATUS:-0} ] || true
done
