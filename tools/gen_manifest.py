#!/usr/bin/env python3
"""Regenerate /verif/MANIFEST.json from harness/registry.py (single source of truth)."""
import json, os, sys
HERE = os.path.dirname(os.path.dirname(os.path.abspath(__file__)))
sys.path.insert(0, HERE)
from harness.registry import CLAIMED, NOT_APPLICABLE, PENDING  # noqa: E402

props = [json.loads(l)["id"] for l in open(os.path.join(HERE, "properties.jsonl"))]
checks = []
for pid in props:
    if pid not in CLAIMED:
        continue
    c = CLAIMED[pid]
    checks.append({
        "property_id": pid,
        "quick_cmd": f"./check {pid} quick",
        "thorough_cmd": f"./check {pid} thorough",
        "evidence_file": f"evidence/{pid}.json",
        "replay_cmd_template": f"./check {pid} --replay {{path}}",
        "engine": "symx",
        "level_claimed": {
            "category": "model_checking",
            "text": c["level_text"],
            "design_ref": f"DESIGN.md §5 {pid}",
        },
        "level_note": c["level_note"],
        "technique": c["technique"],
    })
na = []
for pid in props:
    if pid in CLAIMED:
        continue
    reason = NOT_APPLICABLE.get(pid) or PENDING.get(pid)
    assert reason, pid
    na.append({"property_id": pid, "reason": reason})
manifest = {
    "version": 1,
    "setup_cmd": "./setup.sh",
    "hooks": {
        "guard": "AGILERL_VERIF",
        "enable": "none needed: checks rebind module globals / instance attributes of the code under test at run time in the checking process; no guarded source hooks exist in /repo (guard name reserved, unused)",
        "baseline_off_cmd": "cd /repo && /venv/bin/python -m pytest -ra -q -p no:cacheprovider --timeout=900 --continue-on-collection-errors",
        "source_commits": [],
        "add_only": True,
    },
    "engines": [{
        "name": "symx",
        "path": "symx/",
        "serves_properties": [c["property_id"] for c in checks],
        "kind_free_text": "re-execution symbolic executor: the repository's own Python functions (imported from /repo's working tree at run time) run on z3-backed proxy scalars and a torch.Tensor wrapper subclass; branch decisions fork paths; each obligation is decided per path by z3 (unsat = holds for all values within the stated size bounds); sat models are replayed on the real code with ordinary tensors before anything is reported",
    }],
    "checks": checks,
    "not_applicable": na,
    "notes": "Exit codes of ./check: 0 = all obligations unsat and guards green (KNOWN-FINDING lines allowed); 1 = replayed violation not listed in known_findings.json (VIOLATION line); 2 = harness error / inconclusive (unknown, unsupported op, non-reproducing model, budget exhausted). See DESIGN.md.",
}
json.dump(manifest, open(os.path.join(HERE, "MANIFEST.json"), "w"), indent=1)
print("claimed", [c["property_id"] for c in checks], "n/a", [n["property_id"] for n in na])
