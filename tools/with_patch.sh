#!/bin/sh
export VERIF_EVIDENCE_DIR=/tmp/seedtools/evidence   # runs on a patched tree must not overwrite the committed evidence
# tools/with_patch.sh <patch.diff> <command...> : apply a patch to /repo, run the command from /verif, undo the patch.
P="$(realpath "$1")"; shift
git -C /repo diff --quiet || { echo "/repo has uncommitted changes; refusing"; exit 3; }
git -C /repo apply "$P" || { echo "patch does not apply"; exit 3; }
( cd "$(dirname "$0")/.." && "$@" ); rc=$?
git -C /repo checkout -- . 
exit $rc
