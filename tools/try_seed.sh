#!/bin/sh
export VERIF_EVIDENCE_DIR=/tmp/seedtools/evidence   # runs on a patched tree must not overwrite the committed evidence
# tools/try_seed.sh <PID> <worktree> <mN> : verify the demo (fails with patch, passes without) in the scratch worktree,
# then apply the patch to /repo, run ./check PID quick, undo.  Prints a one-line summary.
PID=$1; WT=$2; M=$3
D=$WT/out/$M
cd $WT || exit 3
git checkout -q -- . 
PYTHONPATH=$WT OMP_NUM_THREADS=1 /venv/bin/python $D/demo.py >/tmp/seedtools/demo_clean.log 2>&1; c0=$?
git apply $D/patch.diff || { echo "patch does not apply in worktree"; exit 3; }
PYTHONPATH=$WT OMP_NUM_THREADS=1 /venv/bin/python $D/demo.py >/tmp/seedtools/demo_mut.log 2>&1; c1=$?
git checkout -q -- .
cd /verif
git -C /repo diff --quiet || { echo "/repo dirty"; exit 3; }
git -C /repo apply $D/patch.diff || { echo "patch does not apply to /repo"; exit 3; }
DS_ACCELERATOR=cpu ./check $PID quick > /tmp/seedtools/check_$PID_$M.log 2>&1; rc=$?
git -C /repo checkout -- .
echo "SEED $PID $M demo_clean=$c0 demo_mut=$c1 check_rc=$rc"
grep -v accelerator /tmp/seedtools/check_$PID_$M.log | grep -E "VIOLATION|^\[|HARNESS-ERROR|KNOWN" | head -8
