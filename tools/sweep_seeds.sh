#!/bin/sh
# apply every stored seed to a scratch worktree of /repo's HEAD, run the quick check of its property against it, undo
export VERIF_EVIDENCE_DIR=/tmp/seedtools/evidence_sweep DS_ACCELERATOR=cpu VERIF_REPO=/tmp/seed/SWEEP
mkdir -p $VERIF_EVIDENCE_DIR
cd /verif
for d in seeded/*/; do
  n=$(basename $d)
  pid=$(python3 -c "import json;print(json.load(open('$d/meta.json'))['property'])")
  git -C /tmp/seed/SWEEP checkout -q -- .
  if ! git -C /tmp/seed/SWEEP apply --check /verif/$d/patch.diff 2>/dev/null; then echo "SWEEP $n $pid does-not-apply"; continue; fi
  git -C /tmp/seed/SWEEP apply /verif/$d/patch.diff
  nice -n 5 ./check $pid quick > /tmp/seedtools/sweep_$n.log 2>&1; rc=$?
  git -C /tmp/seed/SWEEP checkout -q -- .
  v=$(grep -c "^VIOLATION" /tmp/seedtools/sweep_$n.log)
  echo "SWEEP $n $pid rc=$rc violations=$v"
done
