#!/bin/sh
export VERIF_EVIDENCE_DIR=/tmp/seedtools/evidence   # runs on a patched tree must not overwrite the committed evidence
# tools/try_seed_wt.sh <PID> <worktree> <mN> : like try_seed.sh, but the check runs against the scratch worktree itself
# (VERIF_REPO=<worktree>), so /repo is not touched (use while something else needs /repo unchanged)
PID=$1; WT=$2; M=$3
D=$WT/out/$M
cd $WT || exit 3
git checkout -q -- .
PYTHONPATH=$WT OMP_NUM_THREADS=1 /venv/bin/python $D/demo.py >/tmp/seedtools/demo_clean.log 2>&1; c0=$?
git apply $D/patch.diff || { echo "patch does not apply in worktree"; exit 3; }
PYTHONPATH=$WT OMP_NUM_THREADS=1 /venv/bin/python $D/demo.py >/tmp/seedtools/demo_mut.log 2>&1; c1=$?
cd /verif
VERIF_REPO=$WT DS_ACCELERATOR=cpu ./check $PID quick > /tmp/seedtools/check_${PID}_$M.log 2>&1; rc=$?
git -C $WT checkout -q -- .
echo "SEED $PID $M demo_clean=$c0 demo_mut=$c1 check_rc=$rc"
grep -v accelerator /tmp/seedtools/check_${PID}_$M.log | grep -E "VIOLATION|^\[|HARNESS-ERROR|KNOWN" | head -8
