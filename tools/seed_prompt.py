#!/usr/bin/env python3
"""print the prompt for a seeding sub-agent: python3 tools/seed_prompt.py C10 /tmp/seed/C10"""
import json, sys
pid, wt = sys.argv[1], sys.argv[2]
p = [json.loads(l) for l in open('/verif/properties.jsonl') if json.loads(l)['id'] == pid][0]
print(f"""You are helping to evaluate a verification effort for the open-source Python library AgileRL (a PyTorch deep-RL library). Your job is to play the role of a developer who introduces a subtle, realistic bug.

You have your own scratch git worktree of the repository at {wt} (detached HEAD). Work ONLY inside {wt}. Never touch /repo or /verif (do not read /verif either). Python interpreter: /venv/bin/python (has torch, numpy, gymnasium, tensordict, pytest, pytest-xdist; no network). IMPORTANT: always run python/pytest from inside {wt} with the environment variable PYTHONPATH={wt} so that `import agilerl` resolves to your worktree and not to the editable install of /repo (check once with: cd {wt} && PYTHONPATH={wt} /venv/bin/python -c "import agilerl; print(agilerl.__file__)").

Here is a semantic property of AgileRL that is supposed to hold:

  id: {p['id']}
  title: {p['title']}
  statement: {p['statement']}
  quantified over: {p['quantifier']['text']}
  code it is anchored in: {', '.join(p['anchors']['files'])}

TASK: produce TWO independent changes (call them m1 and m2, different mechanisms / different code sites) to the library source under {wt}/agilerl that each BREAK this property, while the code still imports fine and the existing test suite still passes. Each should be the kind of mistake a competent developer could plausibly make in a refactor, optimisation or "clean-up" (an off-by-one, a wrong axis, a dropped term, a swapped argument, a stale cache, a condition that is subtly too weak/strong, two sites that each look fine alone but disagree ...). We want changes that need something SPECIFIC to manifest — a particular input value or shape, a terminal flag at a particular position, a multi-step sequence of operations, a wrap-around, a tie, a rare branch, an unusual configuration — NOT ones that any ordinary use of the library would expose at once, and NOT trivial sabotage (no `raise`, no random noise, no deleting a whole feature). Do not edit tests. Do not add new files to the library. Keep each change small (a few lines).

For each change provide a DEMONSTRATION: a small standalone Python script (demo.py) that uses the library's public API, exits with status 1 (printing what went wrong) when run against the changed code and exits 0 when run against the unchanged code. The demo should check the property's observable behaviour (values, not implementation details), and must be deterministic (seed everything).

Process for each change:
 1. Read the relevant code and the existing tests under {wt}/tests to see what they do and do not cover.
 2. Make the change in the worktree. Run the directly relevant test files first, e.g.
      cd {wt} && PYTHONPATH={wt} OMP_NUM_THREADS=1 /venv/bin/python -m pytest -q -p no:cacheprovider -x <test files>
 3. Run the WHOLE suite once for the final version of the change and compare with the baseline list of tests that must pass:
      cd {wt} && flock /tmp/seed/suite.lock env PYTHONPATH={wt} OMP_NUM_THREADS=1 /venv/bin/python -m pytest -q -p no:cacheprovider --timeout=900 --continue-on-collection-errors -n 6 --dist loadfile --junitxml=/tmp/seed/{pid}_junit.xml > /tmp/seed/{pid}_pytest.log 2>&1 ; /venv/bin/python /tmp/seedtools/compare_baseline.py /tmp/seed/{pid}_junit.xml
    (takes roughly 10-15 minutes; many tests fail even on the unchanged code — only the 1781 tests listed as stable in /root/.vp/BASELINE.json matter; the compare tool prints `stable_not_passing=0` when all of them still pass. Keep `--dist loadfile`: a few tests depend on file-level order.) If stable tests fail because of your change, make the change subtler.
 4. Verify the demo: it must exit 1 with the change and exit 0 on the clean tree (switch with `git diff > /tmp/seed/{pid}_m.patch; git checkout -- .; ...; git apply /tmp/seed/{pid}_m.patch` inside the worktree — do NOT use `git stash`: the stash is shared between all worktrees of the repository and other agents are working concurrently).
 5. Save the results to {wt}/out/m1/ and {wt}/out/m2/: `patch.diff` (output of `git diff` for that change alone, relative to the worktree HEAD, applying cleanly with `git apply` on a clean checkout), `demo.py`, and `notes.md` (what the change is, which part of the property it breaks, what exactly is needed for it to manifest, which commands you ran and their results, including the stable_not_passing line). Leave the worktree itself clean (git checkout -- .) at the end; the out/ directory is untracked and stays.

Clean up any other files you create under /tmp. Report back a short summary: for m1 and m2 the file/function changed, what it needs to manifest, and the verification results (demo exit codes with/without the change, stable_not_passing). If you cannot find a second change that passes the suite, deliver one and say so.""")
