import json, glob, subprocess, sys, os
pid, tag = sys.argv[1], sys.argv[2]
wt=f"/tmp/seed/{pid}{tag}"
subprocess.run(["git","-C","/repo","worktree","add","--detach",wt,"HEAD","-q"],check=True)
txt=subprocess.run(["python3","/verif/tools/seed_prompt.py",pid,wt],capture_output=True,text=True).stdout.replace(f"/tmp/seed/{pid}_",f"/tmp/seed/{pid}{tag}_")
prev=[]
for f in sorted(glob.glob(f"/verif/seeded/*/meta.json")):
    d=json.load(open(f))
    if d.get("property")==pid: prev.append(d["change"])
notes=f"""
Note: one baseline test, tests.test_algorithms.test_cqn::test_clone_returns_identical_agent, is order-dependent under pytest-xdist (it fails when test_grpo.py ran earlier on the same worker) and may show up as the single stable_not_passing entry regardless of your change; if it is the only one, treat the run as clean (you can confirm by running tests/test_algorithms/test_cqn.py alone).
Note: PPO, DDPG and TD3 can only be constructed with share_encoders=False in this environment (an isinstance check against a runtime Protocol fails otherwise); use that in demos.
Note: earlier rounds already produced the following changes for this property; find DIFFERENT mechanisms and DIFFERENT code sites (other functions, other algorithms, other branches, other configurations):
""" + "\n".join(f"  ({i+1}) {c}" for i,c in enumerate(prev)) + """
Note (time saving, overrides step 3): the full-suite runs of all agents are serialised by a lock and take 10-15 minutes each. Run the directly relevant test files for each change as you go, and run the WHOLE suite only ONCE at the end with BOTH changes applied together (they are at different code sites); only if stable tests fail then, find out which change is responsible and repair it. Record that joint result in both notes.md files.
"""
open(f"/tmp/seed/prompt_{pid}{tag}.txt","w").write(txt+notes)
print(wt, len(prev))
