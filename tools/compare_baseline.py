#!/usr/bin/env python3
"""compare a junit xml with BASELINE.json stable_pass: prints stable tests that did not pass."""
import json, sys, xml.etree.ElementTree as ET
b = json.load(open('/root/.vp/BASELINE.json'))
stable = set(b['stable_pass'])
root = ET.parse(sys.argv[1]).getroot()
passed = set()
for tc in root.iter('testcase'):
    name = f"{tc.get('classname')}::{tc.get('name')}"
    if not any(ch.tag in ('failure', 'error', 'skipped') for ch in tc):
        passed.add(name)
missing = sorted(stable - passed)
print(f"stable={len(stable)} passed_now={len(passed)} stable_not_passing={len(missing)}")
for m in missing[:40]:
    print("  ", m)
sys.exit(1 if missing else 0)
