#!/bin/sh
# tools/confirm_suite.sh <PID> <worktree> <mN>... : apply each seed in its scratch worktree, run the full pinned suite, compare with baseline
PID=$1; WT=$2; shift 2
for M in "$@"; do
  cd $WT && git checkout -q -- . && git apply out/$M/patch.diff || { echo "CONFIRM $PID $M apply-failed"; continue; }
  flock /tmp/seed/suite.lock env PYTHONPATH=$WT OMP_NUM_THREADS=1 /venv/bin/python -m pytest -q -p no:cacheprovider --timeout=900 --continue-on-collection-errors -n 8 --dist loadfile --junitxml=/tmp/seed/confirm_${PID}_$M.xml > /tmp/seed/confirm_${PID}_$M.log 2>&1
  r=$(/venv/bin/python /tmp/seedtools/compare_baseline.py /tmp/seed/confirm_${PID}_$M.xml | head -4 | tr '\n' ' ')
  git checkout -q -- .
  echo "CONFIRM $PID $M $r" | tee -a /tmp/seed/confirm_summary.txt
  rm -f /tmp/seed/confirm_${PID}_$M.xml /tmp/seed/confirm_${PID}_$M.log
done
