"""Which properties are claimed, and with what level; the rest with reasons.
MANIFEST.json is generated from this file by tools/gen_manifest.py."""

MODULES = {
    "C17": "harness.c17_gae",
}

CLAIMED = {}

NOT_APPLICABLE = {
    "C01": "aliasing/independence of live nn.Module + optimizer object graphs over learn/mutate/clone histories and behavioural equality after real forward/backward passes: no encoding in which a solver verdict is the deciding step (DESIGN.md §5 C01)",
    "C02": "pointer identity between optimizers and live parameters, target/critic architecture after Mutations.mutation on real module graphs: needs real layer construction and optimizer steps, nothing symbolic survives; the encodable slivers are claimed under C03/C04/C06 (DESIGN.md §5 C02)",
    "C07": "torch.save/dill serialisation, file I/O and reconstruction of real module graphs; no symbolic variable survives a pickle round-trip (DESIGN.md §5 C07)",
    "C20": "whole-program training runs with real environments, agents and files; trip counts are the inputs; after stubbing what cannot be symbolic nothing symbolic of interest is left (DESIGN.md §5 C20)",
}

# designed in DESIGN.md §5 but the check is not built/registered yet (moves to CLAIMED when it lands)
PENDING = {pid: "solver-based check designed (DESIGN.md §5) but not yet built in this tree; not claimed until it is"
           for pid in ["C03", "C04", "C05", "C06", "C08", "C09", "C10", "C11", "C12", "C13", "C14", "C15", "C16", "C17", "C18", "C19"]}
