"""Which properties are claimed, and with what level; the rest with reasons.
MANIFEST.json is generated from this file by tools/gen_manifest.py."""

MODULES = {
    "C17": "harness.c17_gae",
    "C10": "harness.c10_nstep",
    "C09": "harness.c09_replay",
    "C11": "harness.c11_per",
    "C18": "harness.c18_rainbow",
    "C08": "harness.c08_bellman",
    "C06": "harness.c06_hpmut",
    "C05": "harness.c05_tournament",
    "C04": "harness.c04_preserve",
    "C03": "harness.c03_arch",
    "C14": "harness.c14_actions",
    "C15": "harness.c15_obs",
    "C16": "harness.c16_dist",
    "C19": "harness.c19_bandits",
    "C12": "harness.c12_vecenv",
    "C13": "harness.c13_faults",
    "C20": "harness.c20_accounting",
}

TECH = "symbolic execution of the real Python functions on z3-backed proxies (re-execution path exploration); each obligation decided per path by z3 as pc ∧ assumptions ∧ ¬obligation; sat models replayed on the real code"
NOTE = "trusted: z3, CPython, the SymTensor proxy layer (differentially validated against real torch on every run), the listed stubs (networks/optimisers/RNG as arbitrary values within their contracts); floats are mathematical reals; sizes are the stated small bounds"

CLAIMED = {
    "C11": {
        "level_text": "bounded symbolic verification of the real segment trees and PrioritizedReplayBuffer: one arbitrary operation (add of width n, update_priorities with arbitrary indices/priorities incl. repeats and values < 1e-5, sample with arbitrary uniform variates) from an ARBITRARY state satisfying the representation invariant (capacity N<=5 for sample, <=8 for add, <=6 for update; symbolic count/leaves/max_priority/alpha/beta) re-establishes the invariant (internal = op(children), root sum/min = direct computation, tree_ptr = cursor), gives new items max_priority^alpha, samples only live indices whose own prefix interval contains the query mass (hence P(i) ∝ p_i^alpha for uniform variates), and returns weights (N·P(i))^-beta / max_j(...) in (0,1]; x**a is an uninterpreted function with positivity/monotonicity axioms; plus, in IEEE-754 double arithmetic (z3 FloatingPoint, round-nearest-even, capacity<=4(8), leaves in [0,1e150]): after SumSegmentTree.__setitem__ every internal node is the ROUNDED sum of its children and the total is the pairwise sum of the stored priorities",
        "level_note": NOTE + "; pow as UF (sound for proofs; counterexamples replayed with the real pow); floating-point rounding in retrieve() and in the weights is outside the claim (only the sum tree's update is decided on doubles)",
        "technique": TECH,
    },
    "C09": {
        "level_text": "bounded symbolic verification of the real ReplayBuffer.add (one inductive step from an arbitrary ring state with SYMBOLIC count/cursor/size and contents, capacity N<=5(12), batch width n<=N, flat / dict / tuple (nested TensorDict) observations: re-establishes 'row j mod N holds transition j with all its fields for the last min(N,count) transitions, len = that count'), the _init base case, sample() under an arbitrary permutation (stored indices only, no duplicates, fields together, batch not aliased to storage) and the MultiAgentReplayBuffer save/sample path (every field and agent of a sampled row carries the same stored transition; deque keeps the last N)",
        "level_note": NOTE,
        "technique": TECH,
    },
    "C10": {
        "level_text": "bounded symbolic verification of the real MultiStepReplayBuffer.add/_get_n_step_info + ReplayBuffer.add under the two-buffer protocol of train_off_policy: for all rewards, done flags, gamma and labels with n_step<=3(6), envs<=2(3), every stored n-step transition equals the reference of the statement (discounted sum up to the first terminal slot of the window in any env, next_obs/done of that slot) and row k of both buffers describes the same (obs, action)",
        "level_note": NOTE,
        "technique": TECH,
    },
    "C18": {
        "level_text": "bounded symbolic verification of the real RainbowDQN._dqn_loss and learn on a real agent with stub networks: for all rewards (inside, outside and exactly on atoms), done flags, gamma in [0,1], actions taken, online q-values (ties included), target probabilities >= 0 and online log-probabilities at atoms<=5(9), batch<=2, actions<=2(3), symmetric and asymmetric supports with exactly representable delta_z: the projection recovered from the returned loss has the mass of the target distribution of a greedy next action and the mean of its clipped Bellman image, is non-negative, the per-sample loss is the cross-entropy with the online log-distribution of the action taken; learn() combines 1-step and n-step (gamma^n) losses, returns loss+prior_eps as priorities, passes indices through and steps optimiser and soft update once",
        "level_note": NOTE + "; support grids are chosen with exactly representable delta_z (float rounding of b=(Tz-v_min)/delta_z is outside the claim)",
        "technique": TECH,
    },
    "C03": {
        "level_text": "bounded symbolic verification of every @mutation method of EvolvableMLP (add/remove layer, add/remove node), EvolvableCNN (add/remove layer, change_kernel, add/remove channel, with MutableKernelSizes and calc_max_kernel_sizes), EvolvableSimBa, EvolvableLSTM, EvolvableResNet (add/remove block or layer, add/remove node or channel; count and width fully symbolic) EvolvableMultiInput.add/remove_latent_node (symbolic latent width and bounds, fresh and after a real mutation of a nested feature extractor: the rebuild takes the nested extractor's current architecture and the new latent width) and EvolvableNetwork.add/remove_latent_node, run through the real _mutation_wrapper/MutationContext of a real module whose architecture attributes are proxies: ONE mutation from an ARBITRARY architecture inside its declared bounds (hence chains of any length), for all widths/channels/kernels, declared min/max, input H,W in [4,128], arguments and random draws at <=2(3) layers, strides in {1,2}: post-state inside [min,max]; a change landing strictly inside its bound is applied exactly and nothing else moves; blocked layer mutations run the advertised fallback and last_mutation_attr names the method applied; recreate_network runs exactly once; after CNN mutations the conv-size recurrence stays valid (the network can be rebuilt); on replayed/validation models the real recreate_network runs and a real forward pass returns finite outputs of the declared shape",
        "level_note": NOTE + "; Conv3d, GPT/BERT, the nested mutation methods of multi-input networks reached through the outer module's registry, and the finite-output claim for symbolic sizes are outside (real layers need concrete sizes)",
        "technique": TECH,
    },
    "C04": {
        "level_text": "bounded symbolic verification of the real EvolvableModule.preserve_parameters and EvolvableCNN.shrink_preserve_parameters (the functions every recreate_network() hands its (old,new) pair to): for ALL parameter contents and every pair of old/new shapes with rank<=4(5) and extents in {1,2,3}(4) per axis (all pairs at rank<=3, an evenly spaced subset above): the new parameter equals the old one on the common index range (leading [:min0,:min1] block with spatial axes intact for the CNN variant), keeps its fresh value elsewhere, equal shapes give identical parameters, parameters only in the new net and the old net are untouched, names and the returned object are the new network's; AND real mutations with the real recreate_network of real EvolvableMLP, EvolvableCNN, StochasticActor (Box, Discrete), DeterministicActor, QNetwork, ValueNetwork instances whose current weights are SYMBOLS (add/remove node, layer, channel, latent node, nested encoder/head mutations): every parameter that exists before and after (log_std included) equals its old symbolic value on the common index range, i.e. each recreate_network hands the right (old,new) pair to the copy function and names survive the rebuild",
        "level_note": NOTE + "; symbolic content written into freshly built real parameters is captured in a shadow store; clone()(x)==self(x) (forward passes) and EvolvableMultiInput/LSTM/SimBa/ResNet/GPT/BERT are outside the claim",
        "technique": TECH,
    },
    "C05": {
        "level_text": "bounded symbolic verification of the real TournamentSelection.select/_elitism/_tournament on record agents whose clone() returns a tagged child: for all fitness histories (ties, negative, unequal length, shorter than the window), all randint draws and (small cases) all distinct agent indices, at population<=3(4), tournament size<=3, window<=3, new population<=3: the elite is a copy of a member with maximal mean of its last eval_loop scores, the new population has the configured size with the elite first under elitism, every other member's parent was drawn for its tournament and has a mean >= every drawn agent's, child indices are fresh (> every old index), pairwise distinct and distinct from the elite's, and the old population, its fitness lists and indices are untouched (index distinctness is re-established: induction over generations)",
        "level_note": NOTE + "; faithfulness and independence of the real clone() are C01 (not applicable)",
        "technique": TECH,
    },
    "C06": {
        "level_text": "bounded symbolic verification of the real Mutations.rl_hyperparam_mutation -> HyperparameterConfig.sample -> RLParameter.mutate -> reinit_opt -> OptimizerWrapper/torch.optim.Adam on real agents built by the real create_population (DQN, DDPG; thorough: TD3, PPO, MADDPG; initial population sharing one config object, and a population of clones): for all current values in range, min, max, shrink, grow (float hyper-parameters; integer ones with the default factors), uniform and permutation draws, over 2(3) agents mutated in turn (and one agent twice): exactly one configured attribute changes, to dtype(clip(own value * factor)), inside [min,max]; a mutated learning rate is the lr of every param group of every optimizer the algorithm steps with it, other optimizers and all other agents' values and optimizer lrs do not move",
        "level_note": NOTE + "; which optimizers step with which learning-rate attribute is taken from the algorithms' constructors (harness table)",
        "technique": TECH,
    },
    "C08": {
        "level_text": "bounded symbolic verification of the real learn()/update()/_learn_individual() of DQN (plain, double), CQN, DDPG, TD3, MADDPG, MATD3 on real agents with stub networks (uninterpreted functions of their inputs): for all rewards, done flags, actions, network outputs, policy noise, gamma and learn counters at batch<=2(3), actions<=2(3), agents<=2(3): the pair handed to the criterion is (Q(s,a_taken), r+gamma(1-d)V') with V' = max / double-argmax / clipped-noisy-target-action / min of twin target critics / centralised critic over all agents with agent i's own reward and done; done transitions ignore the next observation; soft updates and actor steps happen exactly on policy-delay steps for every (net,target) pair; and the REAL soft_update of DQN, CQN, RainbowDQN, DDPG, TD3, MADDPG, MATD3 on the agents' real networks (fresh, cloned, directly after a real architecture mutation, after a checkpoint round-trip, and as the SECOND consecutive update) with symbolic tau sets every tensor held by the target to tau*online+(1-tau)*previous (in-place writes into real tensors captured in a shadow store) and leaves the online network untouched",
        "level_note": NOTE + "; Rainbow's loss algebra is C18; weights on real networks are concrete seeded values (symbolic weights only on stub networks); chaining of soft updates is by induction over the one-step identity",
        "technique": TECH,
    },
    "C12": {
        "level_text": "bounded symbolic verification, in-process, of the real _async_worker command loop (reset, step..., close) driven by a scripted pipe and a scripted sub-environment, with the real process_transition / get_placeholder_value / write_to_shared_memory / create_shared_memory (ctypes arrays) / Observations; of PettingZooVecEnv.reset -> reset_async -> reset_wait (symbolic integer seed, list of seeds, None; options) and PettingZooVecEnv.step -> step_async -> step_wait on an instance wired to in-memory pipes; and of PettingZooAutoResetParallelWrapper.step: for all terminated/truncated flags, rewards, presence of agents in the returned dicts and actions at agents<=2(3), envs<=3, steps<=2, vector / image / dict / tuple observation spaces: what the worker sends for env i and writes at slot i is what env i returned (placeholders for absent agents), other slots are untouched, env i is reset iff every reporting agent terminated or truncated and the observation surfaced is then the new episode's first, env i is handed exactly [actions[a][i] for a in agents], the parent assembles position i from worker i, copy mode does not alias shared memory, and the wrapper restarts under the same condition",
        "level_note": NOTE + "; observation contents are concrete pairwise-distinct labels (typed shared memory), flags/rewards/actions symbolic; real process scheduling, pickling, cross-process shared memory and what a real environment does with its seed are outside (that sub-environment i is handed seed+i / seed[i] / None and the options is decided)",
        "technique": TECH,
    },
    "C13": {
        "level_text": "bounded symbolic verification of the parent-side protocol of AsyncPettingZooVecEnv (reset/step/call async+wait, set_attr, close/close_extras, _poll_pipe_envs, _raise_if_errors) on an instance wired to in-memory pipes and recorder processes: for EVERY fault schedule (success flag of every worker reply, result of every poll) over 25 enumerated call sequences of length <= 5 with 2(3) workers, with a symbolic clock and timeout (any real >= 0; time advances only while a poll waits) in the timeout cases, workers that have exited after raising (send -> BrokenPipeError, recv -> EOFError) and replies that may not have arrived: out-of-order calls raise NoAsyncCallError / AlreadyPendingCallError / ClosedEnvironmentError, send nothing and leave the state unchanged; a failing worker's exception reaches the caller with its type and the state returns to DEFAULT; a failed poll is reported as TimeoutError; the waiting of one *_wait(timeout) call never exceeds the timeout; close() never raises, never blocks in recv() on an unanswered call when given a timeout, marks the environment closed, closes every pipe, joins or terminates every process, never receives on a pipe without a pending reply, and a second close() is a no-op; plus the worker side: an exception in reset/step/_call is queued with its type, answered (None, False) and the sub-environment is closed",
        "level_note": NOTE + "; true concurrency, processes killed from outside and OS-level scheduling are outside; time is the harness' clock model, not the wall clock",
        "technique": TECH,
    },
    "C20": {
        "level_text": "PARTIAL (accounting, and the action handed to the environment): bounded symbolic verification of the whole of train_on_policy, train_multi_agent_on_policy, train_off_policy, train_multi_agent_off_policy, train_bandits and train_offline with a scripted vector environment, duck agents and a duck memory (never ready / always ready), and in the evolve cases the REAL TournamentSelection through the real tournament_selection_and_mutation with a duck Mutations and a recorder for save_population_checkpoint: for all max_steps in [1,8], evo_steps and episode_steps in [1,4], every agent's learn_step in [1,3], checkpoint in [1,4] at 1-3 sub-environments and 2-3 agents, also for populations that enter with their own non-zero step counters (symbolic, [0,2]) and with the early-stopping exit made reachable: the population keeps its size (and, without selection, its members and order) with distinct indices, every agent's step counter equals the environment steps it actually took and the documented steps per generation, training stops in the FIRST generation in which the documented budget (per agent; summed over the population for the on-policy multi-agent loop) is met, every agent is evaluated exactly once per generation and the returned fitness history has one row per generation, one memory write per environment step, learn() is called on the documented schedule, selection runs as often as documented, the best agent of a generation is the first member of the next with its index, counters and fitness history, the others get fresh distinct indices and continue a parent, checkpoints save whole populations within the documented frequency; and for the two on-policy loops with a Box action space and a real StochasticActor: every action handed to env.step() is inside the box (squashed PPO sample scaled affinely, already scaled IPPO action unchanged, unsquashed action clipped) for all action values the agent can return",
        "level_note": NOTE + "; NOT decided: that learn() accepts what the real samplers return for every algorithm/memory combination, evaluation/mutation/checkpoint files with real agents (the compose-end-to-end half of the property); fitness values are concrete (ranking is C05); the off-policy loops with evo_steps < num_envs never terminate and are excluded by assumption",
        "technique": TECH,
    },
    "C14": {
        "level_text": "bounded symbolic verification of the real action selection of DQN (get_action/_get_action), CQN, RainbowDQN (numpy masked arg-max path), DDPG, TD3 (noise + clip), PPO (evaluation-mode clip / squashed policy), MADDPG / MATD3 (exploration clamp with per-dimension bounds, masked arg-max of discrete actions, environment-defined actions), IPPO (StochasticActor.forward's scaling of a squashed sample, evaluation-mode clipping, environment-defined actions, mask routing) and DeterministicActor.rescale_action on real agents with stub policy networks, plus the real EvolvableDistribution heads (squashed range after recreate/clone, masked sampling): for all network outputs (ties included), masks with >= 1 legal action, epsilon in [0,1], every uniform draw in [0,1) and all exploration noise at batch<=2(3), actions<=3(4), 2-3 action dims with asymmetric per-dimension bounds: the action has the batch shape, is a valid index whose mask bit is 1, is a best allowed action when exploration is off (epsilon 0 / training False), lies inside [low,high] for the continuous learners and evaluation-mode PPO, and rescale_action is the affine image of the activation range",
        "level_note": NOTE + "; that a real network's output activation delivers the assumed range, the bandits' masked arg-max (C19) is outside this check; the policy heads' sampling is decided by the cases shared with C16",
        "technique": TECH,
    },
    "C15": {
        "level_text": "bounded symbolic verification of the real preprocess_observation / obs_to_tensor / maybe_add_batch_dim / apply_image_normalization / get_vect_dim / concatenate_tensors, IPPO.get_action's routing through preprocess_observation and assemble/disassemble_homogeneous_outputs, and stack_critic_observations: for ALL observation values over Box of rank 0-4, images with per-element, unit and infinite bounds, Discrete(3), Discrete(1), MultiDiscrete, MultiBinary, Dict and Tuple of these, given as ndarray, tensor or number, unbatched, batch 1, batch 2 and (steps, envs) shaped: the result is a float tensor of shape (number of observations,) + network input shape, rows are the one-hot / min-max scaled / identity image of their observation, row i equals preparing observation i alone, get_vect_dim is the number of stacked observations, every homogeneous agent/env gets back the policy outputs computed from its own observation, and the centralised critic input holds agent j's observation at position j",
        "level_note": NOTE + "; that a real network's greedy action/value is batch-independent (torch kernels) is outside: only the routing around the network is decided",
        "technique": TECH,
    },
    "C16": {
        "level_text": "bounded symbolic verification of the real EvolvableDistribution.forward/get_distribution/apply_mask/log_prob/entropy, TorchDistribution and its four handlers, StochasticActor.forward/scale_action/action_log_prob on a real StochasticActor whose head returns symbolic logits, with torch.distributions' Normal/Categorical/Bernoulli abstracted to uninterpreted per-component log-prob/entropy symbols and samples that are fresh symbols in the support: for all logits, samples and masks at batch<=2(3) over Discrete(3), MultiDiscrete([2,3]), MultiBinary(3), Box(1), Box(2) with asymmetric bounds: the returned action is in the support (masked categories never returned; squashed: tanh(sample) scaled affinely into the box), the log-prob is the sum over COMPONENTS (one number per batch row) of the component log-probs under the masked logits at the returned action (minus the tanh correction of the raw sample when squashing), the entropy is the sum of component entropies (None when squashing), and re-evaluating a stored action after a second forward uses the current logits at the stored action",
        "level_note": NOTE + "; torch.distributions' densities and samplers are the trusted base (abstracted); exp/log/tanh uninterpreted",
        "technique": TECH + "; torch.distributions abstracted by uninterpreted functions (a proof under the abstraction is sound, counterexamples are replayed on the real distributions)",
    },
    "C19": {
        "level_text": "bounded symbolic verification of the real NeuralUCB.get_action / NeuralTS.get_action (ONE decision from an ARBITRARY symmetric stored matrix: inductive step) and init_params, with a stub actor whose per-arm backward() deposits symbolic gradient features: for all stored matrices, features, network outputs, gamma, masks (and Thompson samples) at arms<=3, output-layer parameters d<=2(3): the arm returned is legal and maximises the index (UCB: mu + gamma*sqrt(g^T S g); TS: a sample with mean mu and std gamma*sqrt(g^T S g)) among legal arms, the stored matrix afterwards satisfies the inverse-free Sherman-Morrison identity S' + S' v (v^T S) = S for the feature v of the arm RETURNED (<=> S'^-1 = S^-1 + v v^T, i.e. the matrix stays the inverse of lambda*I + sum of outer products), symmetry is preserved; init_params gives lambda*I of the size of the real output layer's parameter count; Mutations._reinit_bandit_grads after the output layer changed size (real MLP / Linear of 1-4 units, 1-2 arms) gives a matrix of the new size that is the old one on the kept coordinates and lambda*I, uncoupled, on the new ones",
        "level_note": NOTE + "; sqrt uninterpreted (sqrt(x)>=0, sqrt(x)^2=x); that the deposited features are the true gradients (autograd), float32 drift, positive definiteness for d>2 is outside",
        "technique": TECH,
    },
    "C17": {
        "level_text": "bounded symbolic verification of the real PPO.learn / IPPO.learn up to the minibatch loop: for all rewards, values, done flags, bootstrap values, log-probs, gamma, lambda at rollout shapes T<=3(5), envs<=2(3), agents<=2(3), the flattened rows handed to the minibatch loop carry, for every (agent, step, env), that triple's observation, action, old log-prob, old value and the GAE advantage/return defined by the statement's recursion (up to a permutation of rows)",
        "level_note": NOTE,
        "technique": TECH,
    },
}

NOT_APPLICABLE = {
    "C01": "aliasing/independence of live nn.Module + optimizer object graphs over learn/mutate/clone histories and behavioural equality after real forward/backward passes: no encoding in which a solver verdict is the deciding step (DESIGN.md §5 C01)",
    "C02": "pointer identity between optimizers and live parameters, target/critic architecture after Mutations.mutation on real module graphs: needs real layer construction and optimizer steps, nothing symbolic survives; the encodable slivers are claimed under C03/C04/C06 (DESIGN.md §5 C02)",
    "C07": "torch.save/dill serialisation, file I/O and reconstruction of real module graphs; no symbolic variable survives a pickle round-trip (DESIGN.md §5 C07)",
}

# designed in DESIGN.md §5 but the check is not built/registered yet (moves to CLAIMED when it lands)
PENDING = {}
