"""C19 — neural bandits keep an exact inverse of their regularised Gram matrix.

Real code executed: NeuralUCB.get_action / NeuralTS.get_action (one decision from an ARBITRARY stored matrix: inductive
step) and init_params, on real agents whose actor is a stub: calling it yields per-arm outputs whose backward() deposits
SYMBOLIC gradient features in a stub output layer.
Oracle: with S the stored matrix before, v the (normalised) gradient feature of the arm returned, S' the matrix after:
the inverse-free Sherman-Morrison identity S' + S' v (v^T S) = S (<=> S'^-1 = S^-1 + v v^T for invertible S), symmetry is
preserved, the arm returned is legal and maximises the index (UCB: mu + gamma*sqrt(g^T S g); TS: the sampled values).
"""
from __future__ import annotations

import math

import numpy as np
import torch
from gymnasium import spaces

from .common import *   # noqa: F401,F403
from .common import Case, Ob, require, val, elems, eq, le, lt, ge, gt, conj, disj, neg, all_eq, HarnessError, patched, ShimTorch, ShimNumpy, Recorder
from symx.core import ite, Sym, uf_sqrt
from symx.tensor import mk, _filled, SymTensor
from .c14_actions import np_shim

import agilerl.algorithms.neural_ucb_bandit as ucb_mod
import agilerl.algorithms.neural_ts_bandit as ts_mod
import agilerl.utils.algo_utils as au
from agilerl.algorithms.neural_ucb_bandit import NeuralUCB
from agilerl.algorithms.neural_ts_bandit import NeuralTS

PROPERTY = "C19"


def shim_zeros(*size, dtype=None, device=None, **kw):
    if len(size) == 1 and isinstance(size[0], (tuple, list, torch.Size)):
        size = tuple(size[0])
    return mk(_filled(tuple(int(s) for s in size), 0), dtype or torch.float32)


class BanditStep(Case):
    stubs = ("actor = stub: per-arm outputs mu_k are symbols, mu_k.backward() deposits the symbolic gradient of arm k in the stub output layer's parameters",
             "optimizer = stand-in whose zero_grad() clears the stub layer's gradient; backward() accumulates into it, and it starts with ARBITRARY stale gradients (as left by an earlier learn()); numpy.ma arg-max via the stand-in with numpy's documented semantics; torch.normal (TS) -> arbitrary reals",
             "sqrt uninterpreted with sqrt(x) >= 0 and sqrt(x)^2 = x for x >= 0")
    assumptions = ("the stored matrix S is symmetric; g_k^T S g_k >= 0 (true for PSD S); the Sherman-Morrison identity is claimed where 1 + v^T S v != 0 (always for PSD S)",
                   "mask entries 0/1 with at least one legal arm")
    outside = ("that the deposited features equal the true gradients (autograd)", "float32 drift of the running inverse", "positive definiteness for d > 2")

    def __init__(self, algo, A, d, masked, training=True, with_clone=False):
        self.training, self.with_clone = training, with_clone
        self.algo, self.A, self.d, self.masked = algo, A, d, masked
        self.cls, self.mod = {"UCB": (NeuralUCB, ucb_mod), "TS": (NeuralTS, ts_mod)}[algo]
        self.functions = (self.cls.get_action,)
        self.name = f"bandit-{algo.lower()}-arms{A}-d{d}-{'mask' if masked else 'nomask'}" + ("" if training else "-evalmode") + ("-clone" if with_clone else "")
        self.site = f"Neural{algo}.get_action"
        self.bounds = {"arms": A, "output_layer_parameters": d, "mask": masked,
                       "symbolic": "stored matrix, gradient features, network outputs, gamma, mask" + (", normal samples" if algo == "TS" else "")}
        self._agent = None

    def agent(self):
        if self._agent is None:
            try:
                self._agent = self.cls(spaces.Box(-1, 1, (2,)), spaces.Discrete(self.A), net_config={"encoder_config": {"hidden_size": [2]}, "head_config": {"hidden_size": [2]}})
            except Exception as ex:   # noqa: BLE001
                raise HarnessError(f"could not build the agent: {type(ex).__name__}: {ex}")
        return self._agent

    def run(self, v):
        A, d = self.A, self.d
        agent = self.agent()
        require(agent, "actor", "exp_layer", "sigma_inv", "numel", "gamma", "optimizer", "action_dim")
        m_rows = 4                                   # exp_layer.weight.size(0): features are grad / sqrt(m_rows)
        S0 = v.tensor("S", (d, d))
        for i in range(d):
            for j in range(i):
                v.assume(eq(val(S0, i, j), val(S0, j, i)), "S symmetric")
        Spre = [[val(S0, i, j) for j in range(d)] for i in range(d)]
        G = [[v.real(f"grad{k}_{j}") for j in range(d)] for k in range(A)]
        MU = v.tensor("mu", (A, 1))
        gamma = v.real("gamma")
        v.assume(gamma >= 0)
        mask = None
        if self.masked:
            mask = v.array("mask", (A,), "flag")
            v.assume(disj(*[eq(mask[k], 1) for k in range(A)]))

        class Param:
            requires_grad = True

            def __init__(self, n):
                self.n, self.grad = n, None

            def numel(self):
                return self.n

        class Weight(Param):
            def size(self, i=None):
                return (m_rows, d // m_rows if d >= m_rows else 1)[i] if i is not None else (m_rows,)

        w = Weight(d)

        class ExpLayer:
            weight = w

            def parameters(self):
                return [w]

        class Out:
            def __init__(self, k):
                self.k = k

            def backward(self, retain_graph=False):
                g = (mk(np.array(G[self.k], dtype=object), torch.float32) if v.mode != "real"
                     else torch.tensor([float(x) for x in G[self.k]], dtype=torch.float32))
                w.grad = g if w.grad is None else w.grad + g          # autograd ACCUMULATES into .grad

        class Opt:
            """optimizer stand-in: zero_grad() clears the gradients of the parameters it optimises"""

            def __init__(self):
                self.calls = []

            def zero_grad(self, *a, **k):
                self.calls.append("zero_grad")
                w.grad = None

            def step(self, *a, **k):
                self.calls.append("step")

        # gradients left behind by an earlier learn() step: arbitrary (every history)
        STALE = [v.real(f"stale_grad{j}") for j in range(d)]
        w.grad = (mk(np.array(STALE, dtype=object), torch.float32) if v.mode != "real" else torch.tensor([float(x) for x in STALE], dtype=torch.float32))

        calls = []

        class Actor:
            def __call__(self, x):
                calls.append(x)
                if len(calls) == 1:
                    return [Out(k) for k in range(A)]
                return MU

            def train(self, m=True):
                return self

            def eval(self):
                return self

        feats = [[G[k][j] / math.sqrt(m_rows) for j in range(d)] for k in range(A)]

        def quad(k):
            return sum(feats[k][i] * Spre[i][j] * feats[k][j] for i in range(d) for j in range(d))
        for k in range(A):
            v.assume(ge(quad(k), 0), "g_k^T S g_k >= 0")
        samples = []

        def normal(mean=None, std=None, **kw):
            t = v.tensor("ts_sample", tuple(mean.shape))
            samples.append((mean, std, t))
            return t

        obs = v.array("ctx", (A, 2))
        clone = None
        if self.with_clone:
            # a clone made BEFORE the decision must not see it (no shared confidence matrix)
            with patched((agent, "sigma_inv", S0)):
                try:
                    clone = agent.clone()
                except Exception as ex:   # noqa: BLE001
                    raise HarnessError(f"clone() failed on an agent with a proxy matrix: {type(ex).__name__}: {ex}")
        patches = [(agent, "actor", Actor()), (agent, "exp_layer", ExpLayer()), (agent, "sigma_inv", S0), (agent, "numel", d), (agent, "gamma", gamma),
                   (agent, "optimizer", Opt()), (agent, "training", self.training)]
        ov = {"normal": normal}
        if v.mode != "real":
            ov["zeros"] = shim_zeros
            patches += [(self.mod, "np", np_shim(v)), (au, "torch", ShimTorch())]
        patches.append((self.mod, "torch", ShimTorch(ov)))
        with patched(*patches):
            action = agent.get_action(obs, action_mask=mask)
            S1 = agent.sigma_inv
        res = []
        a = action if not isinstance(action, np.ndarray) else action.reshape(-1)[0]
        res.append(Ob("arm-is-a-valid-index", conj(a >= 0, a < A)))
        if mask is not None:
            res.append(Ob("masked-arm-never-chosen", disj(*[conj(eq(a, k), eq(mask[k], 1)) for k in range(A)]), site=self.site + "/mask"))
        # the index each arm competes with
        if self.algo == "UCB":
            score = [val(MU, k, 0) + gamma * (uf_sqrt(quad(k)) if isinstance(quad(k), Sym) else math.sqrt(max(quad(k), 0.0))) for k in range(A)]
        else:
            score = [val(samples[0][2], k, 0) for k in range(A)] if samples else None
            res.append(Ob("thompson-sample-drawn-once-with-mean-mu", len(samples) == 1 and all_eq(samples[0][0], MU), site=self.site + "/sampling"))
            if samples:
                res.append(Ob("thompson-std-is-gamma*sqrt(g^T S g)", conj(*[eq(val(samples[0][1], k, 0), gamma * (uf_sqrt(quad(k)) if isinstance(quad(k), Sym) else math.sqrt(max(quad(k), 0.0))))
                                                                               for k in range(A)]), site=self.site + "/sampling"))
        if score is not None:
            alts = []
            for k in range(A):
                legal = True if mask is None else eq(mask[k], 1)
                alts.append(conj(eq(a, k), legal, *[disj(neg(True if mask is None else eq(mask[j], 1)), ge(score[k], score[j])) for j in range(A)]))
            res.append(Ob("arm-maximises-the-index-among-legal-arms", disj(*alts), site=self.site + "/argmax"))
        # Sherman-Morrison, inverse-free: S' + S' v (v^T S) = S with v the feature of the arm returned
        Spost = [[val(S1, i, j) for j in range(d)] for i in range(d)]
        per_arm = []
        for k in range(A):
            vk = feats[k]
            vTS = [sum(vk[i] * Spre[i][j] for i in range(d)) for j in range(d)]
            Sv = [sum(Spost[i][j] * vk[j] for j in range(d)) for i in range(d)]
            ident = conj(*[eq(Spost[i][j] + Sv[i] * vTS[j], Spre[i][j]) for i in range(d) for j in range(d)])
            # guard: the update divides by 1 + v^T S v, which is > 0 for every positive semi-definite S
            per_arm.append(disj(neg(eq(a, k)), eq(1 + quad(k), 0), ident))
        if d <= 2:
            res.append(Ob("stored-matrix-satisfies-S'+S'v(v^T S)=S-for-the-feature-of-the-arm-returned", conj(*per_arm), site=self.site + "/sherman-morrison"))
        else:
            # larger matrices: one obligation per entry (each a smaller rational identity for the solver)
            for k in range(A):
                if not (isinstance(a, Sym) or a == k):
                    continue
                vk = feats[k]
                vTS = [sum(vk[i] * Spre[i][j] for i in range(d)) for j in range(d)]
                Sv = [sum(Spost[i][j] * vk[j] for j in range(d)) for i in range(d)]
                for i in range(d):
                    for j in range(d):
                        res.append(Ob(f"S'+S'v(v^T S)=S/entry{i}{j}", disj(neg(eq(a, k)), eq(1 + quad(k), 0), eq(Spost[i][j] + Sv[i] * vTS[j], Spre[i][j])),
                                      site=self.site + "/sherman-morrison"))
        res.append(Ob("stored-matrix-stays-symmetric", conj(*[eq(Spost[i][j], Spost[j][i]) for i in range(d) for j in range(i)]), site=self.site + "/sherman-morrison"))
        if d <= 2:        # a witness for the twin is only cheap for small matrices
            res.append(Ob("twin/matrix-unchanged", conj(*[eq(Spost[i][j], Spre[i][j]) for i in range(d) for j in range(d)]), expect="sat"))
        if clone is not None:
            C = clone.sigma_inv
            res.append(Ob("clone-made-before-the-decision-keeps-the-matrix-it-was-given", tuple(C.shape) == (d, d) and conj(*[eq(val(C, i, j), Spre[i][j]) for i in range(d) for j in range(d)]),
                          site=self.site + "/clone-shares-the-matrix"))
        return res


class BanditInit(Case):
    functions = (NeuralUCB.init_params, NeuralTS.init_params)
    site = "init_params"

    def __init__(self, algo):
        self.algo = algo
        self.cls = {"UCB": NeuralUCB, "TS": NeuralTS}[algo]
        self.name = f"bandit-{algo.lower()}-init"
        self.bounds = {"symbolic": "lambda", "network": "real tiny actor"}

    def run(self, v):
        try:
            agent = self.cls(spaces.Box(-1, 1, (2,)), spaces.Discrete(2), net_config={"encoder_config": {"hidden_size": [2]}, "head_config": {"hidden_size": [2]}})
        except Exception as ex:   # noqa: BLE001
            raise HarnessError(f"could not build the agent: {type(ex).__name__}: {ex}")
        lamb = v.real("lambda")
        v.assume(lamb > 0)
        with patched((agent, "lamb", lamb)):
            agent.init_params()
        n_out = sum(p.numel() for p in agent.actor.get_output_dense().parameters() if p.requires_grad)
        S = agent.sigma_inv
        res = [Ob("size-is-the-number-of-output-layer-parameters", tuple(S.shape) == (n_out, n_out) and agent.numel == n_out)]
        if tuple(S.shape) == (n_out, n_out):
            res.append(Ob("initial-matrix-is-lambda-times-identity", conj(*[eq(val(S, i, j), lamb if i == j else 0) for i in range(n_out) for j in range(n_out)])))
        return res


def cases(tier):
    cs = [BanditStep("UCB", 2, 2, False), BanditStep("UCB", 3, 1, True), BanditStep("TS", 2, 2, True), BanditStep("TS", 3, 1, False), BanditStep("UCB", 2, 1, True),
          BanditStep("UCB", 2, 2, False, training=False), BanditStep("TS", 2, 1, True, training=False), BanditStep("UCB", 2, 2, False, with_clone=True),
          BanditStep("TS", 2, 1, False, with_clone=True),
          BanditInit("UCB"), BanditInit("TS")]
    if tier == "thorough":
        cs += [BanditStep("UCB", 2, 3, False), BanditStep("TS", 2, 3, True), BanditStep("UCB", 3, 2, True)]
    return cs


# --------------------------------------------------------------------------- after an architecture mutation

import agilerl.hpo.mutation as mut_mod
from agilerl.hpo.mutation import Mutations
from agilerl.modules.mlp import EvolvableMLP


class BanditReinit(Case):
    """Mutations._reinit_bandit_grads: after the output layer changed size the stored matrix has the new size, is the old
    matrix on the kept coordinates (a principal sub-matrix: symmetric positive definite if the old one was) and lambda*I on
    the new ones (zero coupling) — hence still symmetric positive definite"""
    functions = (Mutations._reinit_bandit_grads,)
    stubs = ("individual = record with sigma_inv (symbolic), lamb (symbolic), device; the offspring is a real EvolvableMLP, the old output layer a real nn.Linear",
             "agilerl.hpo.mutation.torch -> ShimTorch (from_numpy accepts proxy arrays)")
    assumptions = ("lambda > 0", "the stored matrix is symmetric")
    site = "Mutations._reinit_bandit_grads"

    def __init__(self, h_old, h_new, arms=1):
        self.h_old, self.h_new, self.arms = h_old, h_new, arms
        self.name = f"bandit-reinit-h{h_old}to{h_new}-out{arms}"
        self.bounds = {"old_output_layer": f"Linear({h_old},{arms})", "new_output_layer": f"Linear({h_new},{arms})", "symbolic": "stored matrix, lambda"}

    def run(self, v):
        import torch.nn as nn
        ho, hn, A = self.h_old, self.h_new, self.arms
        n_old, n_new = A * ho + A, A * hn + A
        S = v.tensor("S", (n_old, n_old))
        for i in range(n_old):
            for j in range(i):
                v.assume(eq(val(S, i, j), val(S, j, i)))
        lamb = v.real("lambda")
        v.assume(lamb > 0)
        Spre = [[val(S, i, j) for j in range(n_old)] for i in range(n_old)]
        try:
            new_actor = EvolvableMLP(2, A, [hn], min_mlp_nodes=1, max_mlp_nodes=16)
        except Exception as ex:   # noqa: BLE001
            raise HarnessError(f"could not build the MLP: {ex}")
        old_layer = nn.Linear(ho, A)

        class Ind:
            pass
        ind = Ind()
        ind.sigma_inv, ind.lamb, ind.device, ind.accelerator = S, lamb, "cpu", None
        m = Mutations(0, 0, 0, 0, 0, 0, rand_seed=1)
        patches = [(mut_mod, "torch", ShimTorch())] if v.mode != "real" else []
        with patched(*patches):
            m._reinit_bandit_grads(ind, new_actor, old_layer)
        S1 = ind.sigma_inv
        res = [Ob("size-is-the-number-of-parameters-of-the-new-output-layer", tuple(S1.shape) == (n_new, n_new) and ind.numel == n_new)]
        if tuple(S1.shape) != (n_new, n_new):
            return res
        P = [[val(S1, i, j) for j in range(n_new)] for i in range(n_new)]
        res.append(Ob("symmetric", conj(*[eq(P[i][j], P[j][i]) for i in range(n_new) for j in range(i)])))
        # kept coordinates: the leading min(old,new) entries of each parameter (weight, then bias), as the code defines them
        kept_new, kept_old = [], []
        for (off_o, size_o), (off_n, size_n) in (((0, A * ho), (0, A * hn)), ((A * ho, A), (A * hn, A))):
            k = min(size_o, size_n)
            kept_old += list(range(off_o, off_o + k))
            kept_new += list(range(off_n, off_n + k))
        added = [i for i in range(n_new) if i not in kept_new]
        res.append(Ob("kept-coordinates-carry-the-old-matrix-(principal-sub-matrix)",
                      conj(*[eq(P[a][b], Spre[c][d]) for a, c in zip(kept_new, kept_old) for b, d in zip(kept_new, kept_old)])))
        res.append(Ob("new-coordinates-get-lambda-on-the-diagonal", conj(*[eq(P[i][i], lamb) for i in added]) if added else True, site=self.site + "/lambda-on-new-diagonal"))
        res.append(Ob("new-coordinates-are-uncoupled-(zero-off-diagonal)", conj(*[eq(P[i][j], 0) for i in added for j in range(n_new) if j != i] + [eq(P[j][i], 0) for i in added for j in range(n_new) if j != i])
                      if added else True, site=self.site + "/lambda-on-new-diagonal"))
        return res


_cases_step = cases


def cases(tier):   # noqa: F811
    cs = _cases_step(tier)
    cs += [BanditReinit(1, 2), BanditReinit(1, 3), BanditReinit(2, 1), BanditReinit(2, 2), BanditReinit(1, 2, arms=2)]
    if tier == "thorough":
        cs += [BanditReinit(2, 4), BanditReinit(3, 1), BanditReinit(2, 3, arms=2)]
    return cs


# --------------------------------------------------------------------------- the feature layer after a rebuild of the network


class BanditFeatureLayer(Case):
    """after a mutation that rebuilds the bandit's network (activation, architecture) - called directly or through
    Mutations.mutation() - the layer whose gradients are the features (exp_layer) is the LIVE network's output layer, and the
    stored matrix has one row per parameter of it"""
    stubs = ("none: a real NeuralUCB / NeuralTS agent and the real Mutations methods; nothing symbolic (the decision step on symbolic features is the bandit-* cases' subject)",)
    site = "Mutations/bandit-feature-layer"

    def __init__(self, algo, how):
        self.algo, self.how = algo, how
        self.cls = {"UCB": NeuralUCB, "TS": NeuralTS}[algo]
        self.functions = (Mutations.activation_mutation, Mutations.architecture_mutate)
        self.name = f"bandit-{algo.lower()}-feature-layer-after-{how}"
        self.bounds = {"algorithm": algo, "history": how}

    def run(self, v):
        from agilerl.hpo.mutation import get_exp_layer
        torch.manual_seed(4)
        try:
            agent = self.cls(spaces.Box(-1, 1, (3,)), spaces.Discrete(2), net_config={"encoder_config": {"hidden_size": [4]}})
        except Exception as ex:   # noqa: BLE001
            raise HarnessError(f"could not build the agent: {type(ex).__name__}: {ex}")
        agent.get_action(np.zeros((2, 3), dtype=np.float32))          # a used agent: the features have been computed once
        m = Mutations(0, 1, 0, 0, 1, 0, rand_seed=3, activation_selection=["Tanh", "ELU"])
        if self.how == "activation-mutation-direct":
            agent = m.activation_mutation(agent)
        elif self.how == "architecture-mutation-direct":
            agent = m.architecture_mutate(agent)
        else:
            m2 = Mutations(0, 0, 0, 0, 1, 0, rand_seed=3, activation_selection=["Tanh", "ELU"]) if self.how == "activation-via-mutation()" else Mutations(0, 1, 0, 0, 0, 0, rand_seed=3)
            agent = m2.mutation([agent])[0]
        live = get_exp_layer(agent.actor)
        n = sum(p.numel() for p in live.parameters() if p.requires_grad)
        res = [Ob("exp_layer-is-the-live-network's-output-layer", agent.exp_layer is live, site=self.site),
               Ob("stored-matrix-has-one-row-per-parameter-of-that-layer", tuple(agent.sigma_inv.shape) == (n, n) and agent.numel == n, site=self.site)]
        ok = True
        try:
            a = agent.get_action(np.zeros((2, 3), dtype=np.float32))
            ok = 0 <= int(np.asarray(a).reshape(-1)[0]) < 2
        except Exception:   # noqa: BLE001
            ok = False
        res.append(Ob("the-agent-can-still-decide", ok, site=self.site))
        return res


_cases_reinit = cases


def cases(tier):   # noqa: F811
    cs = _cases_reinit(tier)
    cs += [BanditFeatureLayer("UCB", "activation-mutation-direct"), BanditFeatureLayer("TS", "activation-via-mutation()"), BanditFeatureLayer("UCB", "architecture-via-mutation()")]
    if tier == "thorough":
        cs += [BanditFeatureLayer("TS", "activation-mutation-direct"), BanditFeatureLayer("UCB", "architecture-mutation-direct"), BanditFeatureLayer("TS", "architecture-via-mutation()")]
    return cs
