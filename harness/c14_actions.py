"""C14 — every selected action is a legal member of the action space (and the best allowed one without exploration).

Real code executed on real agents whose policy networks are stubs returning symbolic outputs:
DQN.get_action/_get_action, CQN.get_action, RainbowDQN.get_action, NeuralUCB/NeuralTS.get_action (mask branch is C19's
harness too), DDPG.get_action, TD3.get_action, PPO.get_action (evaluation-mode clipping / scaling of Box actions),
DeterministicActor.rescale_action, MADDPG.get_action / MATD3.get_action (masks, env-defined actions, clipping).
Symbolic: network outputs (ties included), masks, epsilon, every uniform / normal draw, exploration noise.
"""
from __future__ import annotations

import numpy as np
import torch
from gymnasium import spaces

from .common import *   # noqa: F401,F403
from .common import Case, Ob, require, val, elems, eq, le, lt, ge, gt, conj, disj, neg, all_eq, HarnessError, patched, ShimTorch, ShimNumpy, smin, smax
from symx.core import ite, Sym
from symx import tensor as T
from symx.tensor import mk, SymTensor, _filled

import agilerl.algorithms.dqn as dqn_mod
import agilerl.algorithms.cqn as cqn_mod
import agilerl.algorithms.dqn_rainbow as rb_mod
import agilerl.algorithms.ddpg as ddpg_mod
import agilerl.algorithms.td3 as td3_mod
import agilerl.algorithms.ppo as ppo_mod
import agilerl.utils.algo_utils as au
from agilerl.algorithms.dqn import DQN
from agilerl.algorithms.cqn import CQN
from agilerl.algorithms.dqn_rainbow import RainbowDQN
from agilerl.algorithms.ddpg import DDPG
from agilerl.algorithms.td3 import TD3
from agilerl.algorithms.ppo import PPO
from agilerl.networks.actors import DeterministicActor

PROPERTY = "C14"
TINY = {"encoder_config": {"hidden_size": [2]}, "head_config": {"hidden_size": [2]}}


class OutNet:
    """policy/value network stub returning given tensors"""

    def __init__(self, out):
        self.out = out
        self.calls = 0
        self.training = True
        self.squash_output = False

    def __call__(self, *a, **k):
        self.calls += 1
        return self.out(*a, **k) if callable(self.out) else self.out

    def train(self, mode=True):
        self.training = mode
        return self

    def eval(self):
        self.training = False
        return self


def mask_tensor(v, B, A, as_numpy=False):
    m = v.array("mask", (B, A), "flag")
    for b in range(B):
        v.assume(disj(*[eq(m[b, a], 1) for a in range(A)]), "every row of the action mask allows at least one action")
    return m


class MaskedStub:
    """numpy.ma.array(values, mask=...) stand-in with the documented semantics of argmax: masked entries never win unless
    every entry of the row is masked (then index 0)"""

    def __init__(self, values, mask):
        self.values = np.asarray(values, dtype=object)
        self.mask = np.zeros(self.values.shape, dtype=object) if mask is None else np.asarray(mask, dtype=object)

    def argmax(self, axis=None, **k):
        return shim_argmax(self, axis=axis)


def shim_argmax(x, axis=None, **k):
    if isinstance(x, MaskedStub):
        vals, mask = x.values, x.mask
        if mask.shape != vals.shape and mask.size == vals.size:
            mask = mask.reshape(vals.shape)          # numpy.ma reshapes a mask of the same size
        if axis is None:
            vals, mask = vals.reshape(-1), mask.reshape(-1)
        if vals.ndim == 1:
            vals, mask = vals[None], mask[None]
            squeeze = True
        else:
            squeeze = False
        out = []
        for row, mrow in zip(vals, mask):
            best = None
            for j in range(len(row)):
                masked = bool(mrow[j] != 0)
                if masked:
                    continue
                if best is None or bool(row[j] > row[best]):
                    best = j
            out.append(0 if best is None else best)
        r = np.array(out, dtype=np.int64)
        return r[0] if squeeze else r
    return np.argmax(x, axis=axis, **k)


class _MA:
    @staticmethod
    def array(values, mask=None, **k):
        return MaskedStub(values, mask)


def np_shim(v, extra=None):
    ov = {"ma": _MA, "argmax": shim_argmax}
    ov.update(extra or {})
    return ShimNumpy(ov)


def env_defined(v, ids, E, disc, nA, dims=2):
    """environment-defined actions for `infos`: per (agent, env) a symbolic flag (decided by forking) says whether the
    environment defines the action; undefined rows are NaN.  Returns (arrays per agent, {(agent, env): defined})"""
    defined, eda = {}, {}
    for a in ids:
        arr = np.empty((E,) if disc else (E, dims), dtype=object)
        for e in range(E):
            is_def = bool(eq(v.flag(f"def_{a}_{e}"), 1))          # forks: which pairs are defined is part of the path
            defined[a, e] = is_def
            if disc:
                x = v.int(f"eda_{a}_{e}")
                v.assume(conj(x >= 0, x < nA))
                arr[e] = x if is_def else np.nan
            else:
                for k in range(dims):
                    x = v.real(f"eda_{a}_{e}_{k}")
                    arr[e, k] = x if is_def else np.nan
        if v.mode == "real" or not any(isinstance(x, Sym) for x in arr.reshape(-1)):
            arr = arr.astype(np.float64)
        eda[a] = arr
    return eda, defined


def sym_isnan(x):
    x = np.asarray(x)
    if x.dtype != object:
        return np.isnan(x)
    out = np.zeros(x.shape, dtype=bool)
    for idx in np.ndindex(x.shape):
        out[idx] = (not isinstance(x[idx], Sym)) and bool(np.isnan(float(x[idx])))
    return out


def legal_discrete(obs, act, B, A, mask=None, tag=""):
    out = []
    for b in range(B):
        a = val(act, b) if B > 1 or getattr(act, "ndim", 1) > 0 else val(act)
        out.append(Ob(f"{tag}row{b}/action-is-a-valid-index", conj(a >= 0, a < A)))
        if mask is not None:
            ok = disj(*[conj(eq(a, k), eq(mask[b, k], 1)) for k in range(A)])
            out.append(Ob(f"{tag}row{b}/masked-action-never-chosen", ok))
    return out


def greedy_discrete(act, q, B, A, mask=None, tag="", site=None):
    out = []
    for b in range(B):
        a = val(act, b)
        alts = []
        for k in range(A):
            legal_k = True if mask is None else eq(mask[b, k], 1)
            better = [disj(neg(True if mask is None else eq(mask[b, j], 1)), ge(val(q, b, k), val(q, b, j))) for j in range(A)]
            alts.append(conj(eq(a, k), legal_k, *better))
        out.append(Ob(f"{tag}row{b}/without-exploration-the-best-allowed-action-is-chosen", disj(*alts), site=site))
    return out


class DQNAction(Case):
    functions = (DQN.get_action, DQN._get_action)
    stubs = ("actor = stub returning symbolic q-values", "torch.rand_like / Tensor.uniform_ of agilerl.algorithms.dqn -> arbitrary values in [0,1) (the documented range)")
    assumptions = ("0 <= epsilon <= 1", "mask entries are 0/1 with at least one 1 per row")
    site = "DQN._get_action"

    def __init__(self, B, A, masked, greedy):
        self.B, self.A, self.masked, self.greedy = B, A, masked, greedy
        self.name = f"dqn-action-B{B}-A{A}-{'mask' if masked else 'nomask'}-{'eps0' if greedy else 'eps'}"
        self.bounds = {"batch": B, "actions": A, "mask": masked, "epsilon": "0 (exploration off)" if greedy else "symbolic in [0,1]",
                       "symbolic": "q-values (ties included), mask, epsilon, every uniform draw"}
        self._agent = None

    def agent(self):
        if self._agent is None:
            self._agent = DQN(spaces.Box(-1, 1, (1,)), spaces.Discrete(self.A), net_config=TINY)
        return self._agent

    def run(self, v):
        B, A = self.B, self.A
        agent = self.agent()
        require(agent, "actor", "_get_action", "action_dim")
        Q = v.tensor("q", (B, A))
        obs = v.array("obs", (B, 1))
        mask = mask_tensor(v, B, A) if self.masked else None
        eps = 0.0 if self.greedy else v.real("epsilon")
        if not self.greedy:
            v.assume(conj(eps >= 0, eps <= 1))
        actor = OutNet(Q)

        def uni(name, shape):
            t = v.tensor(name, shape)
            for x in elems(t):
                v.assume(conj(x >= 0, x < 1), "uniform draws lie in [0,1)")
            return t

        def rand_like(x, **k):
            return uni("rand", tuple(x.shape))

        def provider(kind, shape, *p):
            return uni("uniform", shape)

        def real_uniform_(self_, *a, **k):
            with torch.no_grad():
                self_.copy_(uni("uniform", tuple(self_.shape)))
            return self_

        ov = {"rand_like": rand_like}
        patches = [(agent, "actor", actor)]
        if v.mode != "real":
            ov["empty"] = lambda *s, **k: mk(_filled(tuple(s[0]) if len(s) == 1 and not isinstance(s[0], int) else tuple(s), 0), torch.float32)
            ov["ones"] = lambda *s, **k: mk(_filled(tuple(s[0]) if len(s) == 1 and not isinstance(s[0], int) else tuple(s), 1), torch.float32)
            patches += [(T.RNG, "provider", provider), (au, "torch", ShimTorch())]
        else:
            patches.append((torch.Tensor, "uniform_", real_uniform_))
        patches.append((dqn_mod, "torch", ShimTorch(ov)))
        with patched(*patches):
            act = agent.get_action(obs, epsilon=eps, action_mask=mask)
        out = [Ob("action-has-the-batch-shape", tuple(np.shape(act)) == (B,))]
        if tuple(np.shape(act)) != (B,):
            return out
        out += legal_discrete(obs, act, B, A, mask)
        if self.greedy:
            out += greedy_discrete(act, Q, B, A, mask, site="DQN._get_action/greedy")
        else:
            out.append(Ob("twin/always-action-0", conj(*[eq(val(act, b), 0) for b in range(B)]), expect="sat"))
        return out


class MaskedArgmaxAction(Case):
    """CQN / RainbowDQN: numpy masked-array argmax path"""
    stubs = ("actor = stub returning symbolic q-values", "numpy.ma.array(...).argmax via a stand-in with numpy's documented semantics (masked entries never win)",
             "random.random / np.random.uniform / np.random.randint of agilerl.algorithms.cqn -> arbitrary values in their documented ranges")
    assumptions = DQNAction.assumptions

    def __init__(self, algo, B, A, masked, greedy=True):
        self.algo, self.B, self.A, self.masked, self.greedy = algo, B, A, masked, greedy
        self.cls, self.mod = {"CQN": (CQN, cqn_mod), "RainbowDQN": (RainbowDQN, rb_mod)}[algo]
        self.functions = (self.cls.get_action,)
        self.site = f"{algo}.get_action"
        self.name = f"{algo.lower()}-action-B{B}-A{A}-{'mask' if masked else 'nomask'}-{'greedy' if greedy else 'eps'}"
        self.bounds = {"batch": B, "actions": A, "mask": masked, "symbolic": "q-values (ties included), mask" + ("" if greedy else ", epsilon, uniform draws")}
        self._agent = None

    def agent(self):
        if self._agent is None:
            kw = {"net_config": TINY} if self.algo == "CQN" else {"net_config": {"encoder_config": {"hidden_size": [2]}, "head_config": {"hidden_size": [16]}}, "num_atoms": 3, "v_min": -1.0, "v_max": 1.0}
            self._agent = self.cls(spaces.Box(-1, 1, (1,)), spaces.Discrete(self.A), **kw)
        return self._agent

    def run(self, v):
        B, A = self.B, self.A
        agent = self.agent()
        Q = v.tensor("q", (B, A))
        obs = v.array("obs", (B, 1))
        mask = mask_tensor(v, B, A) if self.masked else None
        actor = OutNet(Q)
        patches = [(agent, "actor", actor)]
        kw = {}
        rnd_np = {}
        if self.algo == "CQN":
            eps = 0.0 if self.greedy else v.real("epsilon")
            if not self.greedy:
                v.assume(conj(eps >= 0, eps <= 1))
            kw["epsilon"] = eps

            class Rnd:
                @staticmethod
                def random():
                    u = v.real("u")
                    v.assume(conj(u >= 0, u < 1))
                    return u

            class NpRnd:
                @staticmethod
                def uniform(lo, hi, size):
                    t = v.array("uniform", tuple(size))
                    for x in elems(t):
                        v.assume(conj(x >= lo, x < hi), "uniform draws lie in [low, high)")
                    return t

                @staticmethod
                def randint(lo, hi, size=None):
                    t = v.array("randint", (size,) if isinstance(size, int) else tuple(size), "int")
                    for x in elems(t):
                        v.assume(conj(x >= lo, x < hi))
                    return t
            patches.append((cqn_mod, "random", Rnd))
            rnd_np = {"random": NpRnd}
        else:
            kw["training"] = not self.greedy
        if v.mode != "real":
            patches += [(self.mod, "np", np_shim(v, rnd_np)), (au, "torch", ShimTorch())]
        elif rnd_np:
            patches.append((self.mod, "np", ShimNumpy(rnd_np)))
        with patched(*patches):
            act = agent.get_action(obs, action_mask=mask, **kw)
        act = np.asarray(act)
        out = [Ob("action-has-the-batch-shape", tuple(act.shape) == (B,))]
        if tuple(act.shape) != (B,):
            return out
        out += legal_discrete(obs, act, B, A, mask)
        if self.greedy or self.algo == "RainbowDQN":
            out += greedy_discrete(act, Q, B, A, mask, site=self.site + "/greedy")
        return out


class ClipAction(Case):
    """DDPG / TD3 get_action: network output + exploration noise clipped into the Box"""
    stubs = ("actor = stub returning symbolic pre-clip actions", "action_noise() = arbitrary reals (normal / Ornstein-Uhlenbeck noise is unbounded)")
    LOW, HIGH = [-1.0, -2.0, 0.5], [1.0, 3.0, 0.75]

    def __init__(self, algo, B, training):
        self.algo, self.B, self.training = algo, B, training
        self.cls = {"DDPG": DDPG, "TD3": TD3}[algo]
        self.functions = (self.cls.get_action,)
        self.site = f"{algo}.get_action"
        self.name = f"{algo.lower()}-action-B{B}-{'train' if training else 'eval'}"
        self.bounds = {"batch": B, "action_dims": 3, "bounds": "asymmetric per-dimension finite Box", "training": training,
                       "symbolic": "network outputs, exploration noise"}
        self._agent = None

    def agent(self):
        if self._agent is None:
            self._agent = self.cls(spaces.Box(-1, 1, (1,)), spaces.Box(np.array(self.LOW, dtype=np.float32), np.array(self.HIGH, dtype=np.float32)),
                                   share_encoders=False, net_config=TINY)
        return self._agent

    def run(self, v):
        B = self.B
        agent = self.agent()
        require(agent, "actor", "action_noise", "action_space")
        out_t = v.tensor("pi", (B, 3))
        obs = v.array("obs", (B, 1))
        actor = OutNet(out_t)
        noise = lambda: v.array("noise", (B, 3))
        patches = [(agent, "actor", actor), (agent, "action_noise", noise)]
        if v.mode != "real":
            patches.append((au, "torch", ShimTorch()))
        with patched(*patches):
            act = agent.get_action(obs, training=self.training)
        act = np.asarray(act)
        res = [Ob("action-has-the-batch-shape", tuple(act.shape) == (B, 3))]
        if tuple(act.shape) != (B, 3):
            return res
        for b in range(B):
            for k in range(3):
                res.append(Ob(f"row{b}/dim{k}/inside-the-bounds", conj(ge(act[b, k], self.LOW[k]), le(act[b, k], self.HIGH[k]))))
            if not self.training:
                res.append(Ob(f"row{b}/evaluation-action-is-the-clipped-policy-output",
                              conj(*[eq(act[b, k], smin(smax(val(out_t, b, k), self.LOW[k]), self.HIGH[k])) for k in range(3)])))
        res.append(Ob("twin/action-equals-raw-network-output", conj(*[eq(act[0, k], val(out_t, 0, k)) for k in range(3)]), expect="sat"))
        return res


class RescaleAction(Case):
    """DeterministicActor.rescale_action: activation range -> [low, high]"""
    functions = (DeterministicActor.rescale_action,)
    assumptions = ("the network output lies in the range of its output activation (tanh/softsign: [-1,1]; sigmoid/softmax: [0,1])", "low <= high, finite")
    site = "DeterministicActor.rescale_action"

    def __init__(self, activation, B=2, D=2):
        self.act, self.B, self.D = activation, B, D
        self.name = f"rescale-{activation}-B{B}-D{D}"
        self.bounds = {"batch": B, "action_dims": D, "symbolic": "network outputs in the activation's range, low, high per dimension"}

    def run(self, v):
        B, D = self.B, self.D
        lo_r, hi_r = (-1, 1) if self.act in ("Tanh", "Softsign") else (0, 1)
        a = v.tensor("a", (B, D))
        low, high = v.tensor("low", (D,)), v.tensor("high", (D,))
        for x in elems(a):
            v.assume(conj(x >= lo_r, x <= hi_r))
        for l, h in zip(elems(low), elems(high)):
            v.assume(l <= h)
        out = DeterministicActor.rescale_action(a, low, high, self.act)
        res = [Ob("shape-kept", tuple(out.shape) == (B, D))]
        for b in range(B):
            for k in range(D):
                res.append(Ob(f"row{b}/dim{k}/inside-the-bounds", conj(ge(val(out, b, k), val(low, k)), le(val(out, b, k), val(high, k)))))
                res.append(Ob(f"row{b}/dim{k}/affine-image-of-the-activation-range",
                              eq(val(out, b, k), val(low, k) + (val(high, k) - val(low, k)) * (val(a, b, k) - lo_r) / (hi_r - lo_r))))
        res.append(Ob("twin/identity", eq(val(out, 0, 0), val(a, 0, 0)), expect="sat"))
        return res


class PPOEvalAction(Case):
    """PPO.get_action in evaluation mode with a Box action space"""
    functions = (PPO.get_action,)
    stubs = ("PPO._get_action_and_values = stub returning symbolic (action, log_prob, entropy, value); with squash_output the head returns tanh(u) in [-1,1] "
             "(PPO calls the head directly, StochasticActor.forward's scaling is not on this path)",)
    LOW, HIGH = [-1.0, 0.5], [2.0, 0.75]

    def __init__(self, squash, training, B=2):
        self.squash, self.training, self.B = squash, training, B
        self.name = f"ppo-box-action-{'squash' if squash else 'nosquash'}-{'train' if training else 'eval'}-B{B}"
        self.site = "PPO.get_action"
        self.exception_site = "PPO.get_action/eval-squash-scale_action-on-numpy" if (squash and not training) else None
        self.bounds = {"batch": B, "action_dims": 2, "squash_output": squash, "training": training, "symbolic": "policy outputs"}
        self._agent = None

    def agent(self):
        if self._agent is None:
            self._agent = PPO(spaces.Box(-1, 1, (1,)), spaces.Box(np.array(self.LOW, dtype=np.float32), np.array(self.HIGH, dtype=np.float32)),
                              share_encoders=False, net_config={"encoder_config": {"hidden_size": [2]}, "head_config": {"hidden_size": [2]}, "squash_output": self.squash})
            if bool(self._agent.actor.squash_output) != self.squash:
                raise HarnessError("could not configure squash_output")
        return self._agent

    def run(self, v):
        B = self.B
        agent = self.agent()
        require(agent, "_get_action_and_values", "training", "actor")
        raw = v.tensor("action", (B, 2))
        if self.squash:
            for b in range(B):
                for k in range(2):
                    v.assume(conj(val(raw, b, k) >= -1, val(raw, b, k) <= 1), "a squashed head returns tanh(u) in [-1,1]")
        lp, ent, value = v.tensor("lp", (B,)), v.tensor("ent", (B,)), v.tensor("value", (B,))
        obs = v.array("obs", (B, 1))
        patches = [(agent, "_get_action_and_values", lambda o, m=None: (raw, lp, ent, value)), (agent, "training", self.training)]
        if v.mode != "real":
            patches.append((au, "torch", ShimTorch()))
        with patched(*patches):
            act, _, _, _ = agent.get_action(obs)
        act = np.asarray(act)
        res = [Ob("action-has-the-batch-shape", tuple(act.shape) == (B, 2))]
        if tuple(act.shape) != (B, 2):
            return res
        if not self.training:
            for b in range(B):
                for k in range(2):
                    res.append(Ob(f"row{b}/dim{k}/evaluation-action-inside-the-bounds", conj(ge(act[b, k], self.LOW[k]), le(act[b, k], self.HIGH[k])),
                                  site=self.exception_site))
                    if self.squash:
                        res.append(Ob(f"row{b}/dim{k}/squashed-action-is-scaled-affinely-into-the-box",
                                      eq(act[b, k], self.LOW[k] + 0.5 * (val(raw, b, k) + 1) * (self.HIGH[k] - self.LOW[k])), site=self.exception_site))
        else:
            res.append(Ob("training-action-is-the-sampled-action", conj(*[eq(act[b, k], val(raw, b, k)) for b in range(B) for k in range(2)])))
        return res


class MAAction(Case):
    """MADDPG / MATD3 get_action: exploration clamp of continuous actions, masked arg-max of discrete ones, env-defined actions"""
    stubs = ("actors = stubs returning symbolic outputs", "action_noise(idx) = arbitrary reals", "numpy.ma via the stand-in with numpy's documented semantics")
    assumptions = ("evaluation mode: the (real) deterministic actor's output activation and rescaling deliver values inside the Box (stub outputs are assumed inside)",
                   "discrete: one-hot style outputs in [0,1]; masks 0/1 with at least one legal action")

    LOW, HIGH = [-1.0, 0.5], [1.0, 0.75]

    def __init__(self, algo, discrete, training, masked=False, env_defined=False, B=2, nA=None, mask_only_first=False):
        self.mask_only_first = mask_only_first
        from agilerl.algorithms.maddpg import MADDPG
        from agilerl.algorithms.matd3 import MATD3
        self.algo, self.discrete, self.training, self.masked, self.env_defined, self.B = algo, discrete, training, masked, env_defined, B
        self.cls = {"MADDPG": MADDPG, "MATD3": MATD3}[algo]
        self.nA = nA or (3 if discrete else 2)
        self.functions = (self.cls.get_action,)
        self.site = f"{algo}.get_action"
        self.name = f"{algo.lower()}-action-{'discrete' + str(self.nA) if discrete else 'box'}-{'train' if training else 'eval'}" + ("-mask" if masked else "") + ("-only-agent0-has-a-mask" if mask_only_first else "") + ("-envdefined" if env_defined else "") + f"-B{B}"
        self.bounds = {"agents": 2, "batch": B, "discrete": discrete, "training": training, "mask": masked, "env_defined_actions": env_defined,
                       "bounds": None if discrete else "per-dimension: low [-1, 0.5], high [1, 0.75]", "symbolic": "actor outputs, exploration noise, masks, env-defined actions"}
        self._agent = None

    def agent(self):
        if self._agent is None:
            try:
                ids = ["ag_0", "ag_1"]
                asp = spaces.Discrete(self.nA) if self.discrete else spaces.Box(np.array(self.LOW, dtype=np.float32), np.array(self.HIGH, dtype=np.float32))
                self._agent = self.cls([spaces.Box(-1, 1, (1,))] * 2, [asp] * 2, agent_ids=ids, net_config=TINY)
            except Exception as ex:   # noqa: BLE001
                raise HarnessError(f"could not build {self.algo}: {type(ex).__name__}: {ex}")
        return self._agent

    def run(self, v):
        import importlib
        mod = importlib.import_module(self.cls.__module__)
        B = self.B
        agent = self.agent()
        ids = list(agent.agent_ids)
        nA = self.nA
        OUT = {a: v.tensor(f"pi_{a}", (B, nA)) for a in ids}
        for a in ids:
            for b in range(B):
                for k in range(nA):
                    x = val(OUT[a], b, k)
                    if self.discrete:
                        v.assume(conj(x >= 0, x <= 1))
                    elif not self.training:
                        v.assume(conj(x >= self.LOW[k], x <= self.HIGH[k]))
        obs = {a: v.array(f"o_{a}", (B, 1)) for a in ids}
        actors = [OutNet(OUT[a]) for a in ids]
        noise = lambda idx: v.tensor(f"noise{idx}", (B, nA))
        infos = None
        masks, eda = {}, {}
        if self.masked or self.env_defined:
            infos = {a: {} for a in ids}
        if self.masked:
            for a in (ids[:1] if self.mask_only_first else ids):          # (an environment may supply masks for some agents only)
                m = v.array(f"mask_{a}", (B, nA), "flag")
                for b in range(B):
                    v.assume(disj(*[eq(m[b, k], 1) for k in range(nA)]))
                masks[a] = m
                infos[a]["action_mask"] = m
        defined = {}
        if self.env_defined:
            eda, defined = env_defined(v, ids, B, self.discrete, nA, dims=nA)
            for a in ids:
                infos[a]["env_defined_actions"] = eda[a]
        patches = [(agent, "actors", actors), (agent, "action_noise", noise)]
        if v.mode != "real":
            import agilerl.algorithms.core.base as base_mod
            patches += [(mod, "np", np_shim(v)), (au, "torch", ShimTorch())]
            if self.env_defined:
                patches.append((base_mod, "np", ShimNumpy({"isnan": sym_isnan})))
        with patched(*patches):
            cont, disc = agent.get_action(obs, training=self.training, infos=infos)
        res = []
        if self.env_defined:
            res.append(Ob("twin/no-action-is-environment-defined", not any(defined.values()), expect="sat"))
        for a in ids:
            if self.discrete:
                act = np.asarray(disc[a])
                res.append(Ob(f"{a}/action-has-the-batch-shape", tuple(act.shape) in ((B,), (B, 1))))     # MATD3 returns a column
                if tuple(act.shape) not in ((B,), (B, 1)):
                    continue
                act = act.reshape(-1)
                for b in range(B):
                    x = act[b]
                    res.append(Ob(f"{a}/row{b}/action-is-a-valid-index", conj(x >= 0, x < nA)))
                    if defined.get((a, b)):
                        res.append(Ob(f"{a}/row{b}/environment-defined-action-is-returned", eq(x, eda[a][b]), site=self.site + "/env-defined-actions"))
                        continue
                    if self.masked and a in masks:
                        res.append(Ob(f"{a}/row{b}/masked-action-never-chosen", disj(*[conj(eq(x, k), eq(masks[a][b, k], 1)) for k in range(nA)]), site=self.site + "/mask"))
            else:
                act = np.asarray(cont[a])
                res.append(Ob(f"{a}/action-has-the-batch-shape", tuple(act.shape) == (B, nA)))
                if tuple(act.shape) != (B, nA):
                    continue
                for b in range(B):
                    for k in range(nA):
                        if defined.get((a, b)):
                            res.append(Ob(f"{a}/row{b}/dim{k}/environment-defined-action-is-returned", eq(act[b, k], eda[a][b, k]), site=self.site + "/env-defined-actions"))
                            continue
                        res.append(Ob(f"{a}/row{b}/dim{k}/inside-the-bounds", conj(ge(act[b, k], self.LOW[k]), le(act[b, k], self.HIGH[k])),
                                      site=self.site + "/clamp-uses-first-dimension-bounds"))
        return res


class IPPOAction(Case):
    """IPPO.get_action with Box action spaces: the real StochasticActor.forward (scaling of a squashed sample) and the
    evaluation-mode clipping / scaling in get_action, through the homogeneous-agent assembly"""
    stubs = ("actor.extract_features = identity, actor.head_net.forward = stub returning symbolic (sample, log_prob, entropy); with squash_output the head "
             "returns tanh(u) in [-1,1]; the REAL StochasticActor.forward runs (IPPO calls the actor, so its scaling is on this path)", "critic = stub")
    LOW, HIGH = [-1.0, 0.5], [2.0, 0.75]

    def __init__(self, squash, training, A=2, E=1):
        from agilerl.algorithms.ippo import IPPO
        from agilerl.networks.actors import StochasticActor
        self.squash, self.training, self.A, self.E = squash, training, A, E
        self.functions = (IPPO.get_action, StochasticActor.forward, StochasticActor.scale_action)
        self.name = f"ippo-box-action-{'squash' if squash else 'nosquash'}-{'train' if training else 'eval'}-A{A}-E{E}"
        self.site = "IPPO.get_action"
        self.exception_site = "IPPO.get_action/eval-squash-scales-the-scaled-action-again" if (squash and not training) else None
        self.bounds = {"homogeneous_agents": A, "num_envs": E, "action_dims": 2, "squash_output": squash, "training": training,
                       "bounds": "per-dimension: low [-1, 0.5], high [2, 0.75]", "symbolic": "policy samples"}
        self._agent = None

    def agent(self):
        from agilerl.algorithms.ippo import IPPO
        if self._agent is None:
            try:
                ids = [f"ag_{i}" for i in range(self.A)]
                asp = spaces.Box(np.array(self.LOW, dtype=np.float32), np.array(self.HIGH, dtype=np.float32))
                from agilerl.networks.actors import StochasticActor
                from agilerl.networks.value_networks import ValueNetwork
                osp = spaces.Box(-1, 1, (1,))
                cfg = {"encoder_config": {"hidden_size": [2]}, "head_config": {"hidden_size": [2]}}
                # (IPPO hands its net_config to the critic too, which does not know squash_output: a squashed policy is passed in)
                self._agent = IPPO([osp] * self.A, [asp] * self.A, agent_ids=ids, actor_networks=[StochasticActor(osp, asp, squash_output=self.squash, **cfg)],
                                   critic_networks=[ValueNetwork(osp, **cfg)])
            except Exception as ex:   # noqa: BLE001
                raise HarnessError(f"could not build IPPO: {type(ex).__name__}: {ex}")
            if bool(self._agent.actors[0].squash_output) != self.squash:
                raise HarnessError("could not configure squash_output")
        return self._agent

    def run(self, v):
        import agilerl.algorithms.ippo as ippo_mod
        A, E = self.A, self.E
        N = A * E
        agent = self.agent()
        require(agent, "actors", "critics", "training", "homogeneous_agents")
        if len(agent.actors) != 1:
            raise HarnessError("expected one shared policy")
        actor = agent.actors[0]
        require(actor, "extract_features", "head_net", "scale_action", "squash_output")
        ids = list(agent.agent_ids)
        raw = v.tensor("sample", (N, 2))
        if self.squash:
            for b in range(N):
                for k in range(2):
                    v.assume(conj(val(raw, b, k) >= -1, val(raw, b, k) <= 1), "a squashed head returns tanh(u) in [-1,1]")
        lp, ent = v.tensor("lp", (N,)), v.tensor("ent", (N,))
        obs = {a: v.array(f"o_{a}", (E, 1)) for a in ids}

        class Critic:
            def __call__(self, x):
                return v.tensor("val", (x.shape[0], 1))

            def eval(self):
                return self

        patches = [(actor, "extract_features", lambda o: o), (actor.head_net, "forward", lambda latent, mask=None: (raw, lp, ent)),
                   (agent, "critics", [Critic()]), (agent, "training", self.training)]
        if v.mode != "real":
            patches += [(au, "torch", ShimTorch()), (ippo_mod, "torch", ShimTorch())]
        with patched(*patches):
            act, _, _, _ = agent.get_action(obs)
        res = [Ob("one-action-array-per-agent", sorted(act.keys()) == sorted(ids))]
        if not res[0].cond:
            return res
        # row of the shared batch that belongs to (agent, env): the assembly stacks agent-major (C15 decides the routing)
        for i, a in enumerate(ids):
            arr = np.asarray(act[a])
            res.append(Ob(f"{a}/action-has-the-batch-shape", tuple(arr.shape) == (E, 2)))
            if tuple(arr.shape) != (E, 2):
                continue
            for e in range(E):
                r = i * E + e
                for k in range(2):
                    lo, hi = self.LOW[k], self.HIGH[k]
                    scaled = lo + 0.5 * (val(raw, r, k) + 1) * (hi - lo)
                    if self.squash:
                        res.append(Ob(f"{a}/env{e}/dim{k}/squashed-sample-is-scaled-affinely-into-the-box-exactly-once", eq(arr[e, k], scaled), site=self.exception_site or self.site + "/squash-scaling"))
                    if not self.training or self.squash:
                        res.append(Ob(f"{a}/env{e}/dim{k}/action-inside-the-bounds", conj(ge(arr[e, k], lo), le(arr[e, k], hi)), site=self.exception_site or self.site + "/bounds"))
                    if not self.squash:
                        want = val(raw, r, k) if self.training else smin(smax(val(raw, r, k), lo), hi)
                        res.append(Ob(f"{a}/env{e}/dim{k}/{'training-action-is-the-sample' if self.training else 'evaluation-action-is-the-clipped-sample'}", eq(arr[e, k], want)))
        return res


class IPPOEnvDefined(Case):
    """IPPO.get_action with environment-defined actions in `infos` (NaN = not defined): a defined action is returned as it
    is, every other row keeps the policy's own sample"""
    stubs = ("actor = stub returning symbolic samples (valid indices / reals), critic = stub", "numpy.isnan of agilerl.algorithms.core.base works elementwise on arrays that hold symbols")
    assumptions = ("per (agent, env) the environment either defines the whole action or none of it (NaN)",)

    def __init__(self, discrete, A=2, E=2):
        from agilerl.algorithms.ippo import IPPO
        self.discrete, self.A, self.E = discrete, A, E
        self.functions = (IPPO.get_action, IPPO.extract_agent_masks, IPPO.process_infos)
        self.name = f"ippo-env-defined-{'discrete' if discrete else 'box'}-A{A}-E{E}"
        self.site = "IPPO.get_action/env-defined-actions"
        self.bounds = {"homogeneous_agents": A, "num_envs": E, "actions": "Discrete(3)" if discrete else "Box(2)", "symbolic": "policy samples, which (agent, env) pairs the environment defines, the defined actions"}
        self._agent = None

    def agent(self):
        from agilerl.algorithms.ippo import IPPO
        if self._agent is None:
            try:
                ids = [f"ag_{i}" for i in range(self.A)]
                asp = spaces.Discrete(3) if self.discrete else spaces.Box(-1, 1, (2,))
                self._agent = IPPO([spaces.Box(-1, 1, (1,))] * self.A, [asp] * self.A, agent_ids=ids, net_config={"encoder_config": {"hidden_size": [2]}, "head_config": {"hidden_size": [2]}})
            except Exception as ex:   # noqa: BLE001
                raise HarnessError(f"could not build IPPO: {type(ex).__name__}: {ex}")
        return self._agent

    def run(self, v):
        import agilerl.algorithms.ippo as ippo_mod
        import agilerl.algorithms.core.base as base_mod
        A, E, disc = self.A, self.E, self.discrete
        N, nA = A * E, 3
        agent = self.agent()
        ids = list(agent.agent_ids)
        if disc:
            raw = v.tensor("sample", (N,), "int")
            for r in range(N):
                v.assume(conj(val(raw, r) >= 0, val(raw, r) < nA), "the policy samples a valid index")
        else:
            raw = v.tensor("sample", (N, 2))
        obs = {a: v.array(f"o_{a}", (E, 1)) for a in ids}
        eda, defined = env_defined(v, ids, E, disc, nA)
        infos = {a: {"env_defined_actions": eda[a]} for a in ids}
        isnan = sym_isnan

        class Actor:
            squash_output = False

            def __call__(self, x, action_mask=None):
                return raw, v.tensor("lp", (N,)), v.tensor("ent", (N,))

            def eval(self):
                return self

        class Critic(Actor):
            def __call__(self, x):
                return v.tensor("val", (N, 1))

        patches = [(agent, "actors", [Actor()]), (agent, "critics", [Critic()]), (agent, "training", True)]
        if v.mode != "real":
            patches += [(au, "torch", ShimTorch()), (ippo_mod, "torch", ShimTorch()), (base_mod, "np", ShimNumpy({"isnan": isnan}))]
        with patched(*patches):
            act, _, _, _ = agent.get_action(obs, infos)
        res = []
        for i, a in enumerate(ids):
            arr = np.asarray(act[a])
            ok_shape = arr.shape[0] == E and arr.size == E * (1 if disc else 2)
            res.append(Ob(f"{a}/action-has-the-batch-shape", ok_shape))
            if not ok_shape:
                continue
            arr = arr.reshape(E, -1)
            for e in range(E):
                r = i * E + e
                for k in range(1 if disc else 2):
                    pol = val(raw, r) if disc else val(raw, r, k)
                    if defined[a, e]:
                        want = eda[a][e] if disc else eda[a][e, k]
                        res.append(Ob(f"{a}/env{e}/dim{k}/environment-defined-action-is-returned", eq(arr[e, k], want), site=self.site))
                    else:
                        res.append(Ob(f"{a}/env{e}/dim{k}/policy-action-is-kept-where-the-environment-defines-none", eq(arr[e, k], pol), site=self.site))
                if disc:
                    res.append(Ob(f"{a}/env{e}/action-is-a-valid-index", conj(ge(arr[e, 0], 0), lt(arr[e, 0], nA)), site=self.site))
        res.append(Ob("twin/no-action-is-environment-defined", not any(defined.values()), expect="sat"))
        return res


class IPPOGroupClip(Case):
    """IPPO.get_action in evaluation mode with two groups of homogeneous agents whose Box action spaces differ: every agent's
    action is clipped to ITS OWN bounds"""
    stubs = ("actors / critics = stubs returning symbolic samples (one shared policy per group)",)
    BOX = {"alpha": ([-1.0, -1.0], [1.0, 1.0]), "beta": ([-0.25, -3.0], [2.0, 0.5])}

    def __init__(self, E=1):
        from agilerl.algorithms.ippo import IPPO
        self.E = E
        self.functions = (IPPO.get_action,)
        self.name = f"ippo-group-clip-eval-E{E}"
        self.site = "IPPO.get_action/clip-with-own-bounds"
        self.bounds = {"groups": "alpha (2 agents, Box [-1,1]^2), beta (1 agent, Box [-0.25,2] x [-3,0.5])", "num_envs": E, "symbolic": "policy samples"}
        self._agent = None

    def agent(self):
        from agilerl.algorithms.ippo import IPPO
        if self._agent is None:
            try:
                ids = ["alpha_0", "alpha_1", "beta_0"]
                sp = {g: spaces.Box(np.array(lo, dtype=np.float32), np.array(hi, dtype=np.float32)) for g, (lo, hi) in self.BOX.items()}
                self._agent = IPPO([spaces.Box(-1, 1, (1,))] * 3, [sp["alpha"], sp["alpha"], sp["beta"]], agent_ids=ids,
                                   net_config={"encoder_config": {"hidden_size": [2]}, "head_config": {"hidden_size": [2]}})
            except Exception as ex:   # noqa: BLE001
                raise HarnessError(f"could not build IPPO: {type(ex).__name__}: {ex}")
        return self._agent

    def run(self, v):
        import agilerl.algorithms.ippo as ippo_mod
        E = self.E
        agent = self.agent()
        require(agent, "actors", "critics", "shared_agent_ids", "homogeneous_agents")
        groups = list(agent.shared_agent_ids)
        if sorted(groups) != ["alpha", "beta"]:
            raise HarnessError(f"unexpected groups {groups}")
        raw = {g: v.tensor(f"sample_{g}", (len(agent.homogeneous_agents[g]) * E, 2)) for g in groups}

        def mk_actor(g):
            class Actor:
                squash_output = False

                def __call__(self, x, action_mask=None):
                    n = raw[g].shape[0]
                    return raw[g], v.tensor(f"lp_{g}", (n,)), v.tensor(f"ent_{g}", (n,))

                def eval(self):
                    return self
            return Actor()

        def mk_critic(g):
            class Critic:
                def __call__(self, x):
                    return v.tensor(f"val_{g}", (raw[g].shape[0], 1))

                def eval(self):
                    return self
            return Critic()

        obs = {a: v.array(f"o_{a}", (E, 1)) for a in agent.agent_ids}
        patches = [(agent, "actors", [mk_actor(g) for g in groups]), (agent, "critics", [mk_critic(g) for g in groups]), (agent, "training", False)]
        if v.mode != "real":
            patches += [(au, "torch", ShimTorch()), (ippo_mod, "torch", ShimTorch())]
        with patched(*patches):
            act, _, _, _ = agent.get_action(obs)
        res = []
        for g in groups:
            lo, hi = self.BOX[g]
            for i, a in enumerate(agent.homogeneous_agents[g]):
                arr = np.asarray(act[a])
                ok = tuple(arr.shape) == (E, 2)
                res.append(Ob(f"{a}/action-has-the-batch-shape", ok))
                if not ok:
                    continue
                for e in range(E):
                    for k in range(2):
                        r = val(raw[g], i * E + e, k)
                        res.append(Ob(f"{a}/env{e}/dim{k}/clipped-to-its-own-bounds", eq(arr[e, k], smin(smax(r, lo[k]), hi[k])), site=self.site))
        return res


def cases(tier):
    cs = [DQNAction(2, 3, True, False), DQNAction(2, 3, True, True), DQNAction(1, 2, False, False), DQNAction(2, 2, False, True),
          MaskedArgmaxAction("CQN", 2, 3, True), MaskedArgmaxAction("CQN", 2, 3, True, greedy=False), MaskedArgmaxAction("CQN", 2, 2, False, greedy=False),
          MaskedArgmaxAction("RainbowDQN", 2, 3, True), MaskedArgmaxAction("RainbowDQN", 2, 3, False), MaskedArgmaxAction("RainbowDQN", 1, 2, True, greedy=False),
          ClipAction("DDPG", 2, True), ClipAction("DDPG", 1, False), ClipAction("TD3", 2, True), ClipAction("TD3", 2, False),
          RescaleAction("Tanh"), RescaleAction("Sigmoid"), RescaleAction("Softsign", B=1, D=3),
          PPOEvalAction(False, False), PPOEvalAction(False, True), PPOEvalAction(True, False), PPOEvalAction(True, True),
          MAAction("MADDPG", False, True), MAAction("MADDPG", False, False), MAAction("MADDPG", True, True, masked=True, B=1, nA=2),
          MAAction("MADDPG", True, False, masked=True, B=1), MAAction("MATD3", False, True, B=1), MAAction("MATD3", True, False, masked=True, B=1),
          IPPOAction(True, False), IPPOAction(True, True), IPPOAction(False, False), IPPOAction(False, True, A=1, E=2),
          IPPOEnvDefined(True), IPPOEnvDefined(False, A=2, E=1), IPPOGroupClip(1),
          MAAction("MATD3", True, False, masked=True, B=1, mask_only_first=True), MAAction("MADDPG", True, True, masked=True, B=1, nA=2, mask_only_first=True),
          MAAction("MADDPG", True, True, masked=True, env_defined=True, B=1, nA=2), MAAction("MADDPG", False, True, env_defined=True, B=1), MAAction("MATD3", True, False, env_defined=True, B=1)]
    # what the policy-gradient cases above assume of the policy head is decided on the REAL head (C16's harness): a squashed head
    # returns tanh(u) scaled into the box - also after recreate_network / clone / a latent mutation -, a masked head never returns
    # a masked index, and IPPO hands every (agent, env) row its own mask
    from .c16_dist import DistCase, IPPOMaskRouting
    cs += [DistCase("box2", squash=True), DistCase("box2", squash=True, history="recreate"), DistCase("box2", squash=True, history="clone"),
           DistCase("discrete3", masked=True), DistCase("multidiscrete23", masked=True), DistCase("multibinary3"), IPPOMaskRouting(2, 2), IPPOMaskRouting(2, 2, arrays=True)]
    if tier == "thorough":
        cs += [DQNAction(1, 4, True, False), DQNAction(1, 4, True, True), DQNAction(3, 2, True, True), MaskedArgmaxAction("CQN", 2, 4, True), MaskedArgmaxAction("RainbowDQN", 2, 4, True),
               ClipAction("DDPG", 2, False), MAAction("MADDPG", True, False, masked=True, B=2, nA=2), MAAction("MATD3", False, False, B=2),
               MAAction("MADDPG", True, False, env_defined=True, B=2, nA=2), MAAction("MATD3", False, True, env_defined=True, B=2), IPPOEnvDefined(True, A=2, E=3), IPPOEnvDefined(False, A=2, E=2),
               IPPOAction(True, False, A=2, E=2), IPPOAction(False, False, A=1, E=3)]
    return cs
