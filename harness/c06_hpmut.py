"""C06 — hyper-parameter mutation stays in its configured range and takes effect.

Real code executed: create_population (real agents with tiny networks, hence the object sharing that function creates),
Mutations.rl_hyperparam_mutation, HyperparameterConfig.sample, RLParameter.mutate, Mutations.reinit_opt,
OptimizerWrapper.__init__ (-> torch.optim.Adam, which stores the proxy as `lr`).
Symbolic: every configured hyper-parameter's current value per agent, min, max, shrink and grow factor, the uniform draw
(shrink or grow), the randperm draw (which hyper-parameter).
"""
from __future__ import annotations

import numpy as np
import torch
from gymnasium import spaces

from .common import *   # noqa: F401,F403
from .common import Case, Ob, require, val, elems, eq, le, lt, ge, gt, conj, disj, neg, all_eq, HarnessError, patched, ShimTorch, smin, smax
from symx.core import ite, Sym
from symx import core
from symx.shim import sym_int, sym_float

import agilerl.algorithms.core.registry as reg_mod
import agilerl.hpo.mutation as mut_mod
from agilerl.algorithms.core.registry import HyperparameterConfig, RLParameter
from agilerl.algorithms.core.wrappers import OptimizerWrapper
from agilerl.hpo.mutation import Mutations
from agilerl.utils.utils import create_population

PROPERTY = "C06"
TINY = {"encoder_config": {"hidden_size": [2]}, "head_config": {"hidden_size": [2]}}

LR_A, LR_C = 1e-3, 2e-3        # two distinct float objects (see the one-object case below)
ALGOS = {
    # algo name for create_population, observation space, action space, INIT_HP, {hp attr: kind},
    # {learning-rate attribute: optimizers the algorithm steps with it}  (from the algorithms' constructors)
    "DQN": ("DQN", spaces.Box(-1, 1, (2,)), spaces.Discrete(2), {"BATCH_SIZE": 8, "LR": 1e-3, "LEARN_STEP": 2},
            {"lr": "real", "batch_size": "int", "learn_step": "int", "gamma": "realfree", "tau": "realfree"}, {"lr": ["optimizer"]}),
    "DDPG": ("DDPG", spaces.Box(-1, 1, (2,)), spaces.Box(-1, 1, (1,)), {"BATCH_SIZE": 8, "LR_ACTOR": LR_A, "LR_CRITIC": LR_C, "SHARE_ENCODERS": False},
             {"lr_actor": "real", "lr_critic": "real", "batch_size": "int"}, {"lr_actor": ["actor_optimizer"], "lr_critic": ["critic_optimizer"]}),
    "TD3": ("TD3", spaces.Box(-1, 1, (2,)), spaces.Box(-1, 1, (1,)), {"BATCH_SIZE": 8, "LR_ACTOR": LR_A, "LR_CRITIC": LR_C, "SHARE_ENCODERS": False},
            {"lr_actor": "real", "lr_critic": "real"}, {"lr_actor": ["actor_optimizer"], "lr_critic": ["critic_1_optimizer", "critic_2_optimizer"]}),
    "PPO": ("PPO", spaces.Box(-1, 1, (2,)), spaces.Discrete(2), {"BATCH_SIZE": 8, "LR": 1e-3, "LEARN_STEP": 16, "SHARE_ENCODERS": False},
            {"lr": "real", "batch_size": "int"}, {"lr": ["optimizer"]}),
    "MADDPG": ("MADDPG", [spaces.Box(-1, 1, (2,))] * 2, [spaces.Box(-1, 1, (1,))] * 2, {"BATCH_SIZE": 8, "LR_ACTOR": LR_A, "LR_CRITIC": LR_C, "AGENT_IDS": ["a_0", "a_1"]},
               {"lr_actor": "real", "lr_critic": "real"}, {"lr_actor": ["actor_optimizers"], "lr_critic": ["critic_optimizers"]}),
}


def group_lrs(agent, opt_name):
    w = getattr(agent, opt_name)
    opts = w.optimizer if isinstance(w.optimizer, list) else [w.optimizer]
    return [g["lr"] for o in opts for g in o.param_groups]


def step_all(agent, opt_names):
    """one real optimiser step with zero gradients: afterwards every optimiser carries per-parameter state (as after learn())"""
    for on in opt_names:
        w = getattr(agent, on)
        opts = w.optimizer if isinstance(w.optimizer, list) else [w.optimizer]
        for o in opts:
            for g in o.param_groups:
                for p_ in g["params"]:
                    p_.grad = torch.zeros_like(p_)
            o.step()


def trunc(x):
    if isinstance(x, Sym):
        return sym_int(x)
    import math
    return math.trunc(x)


class HpMutation(Case):
    functions = (Mutations.rl_hyperparam_mutation, HyperparameterConfig.sample, RLParameter.mutate, Mutations.reinit_opt,
                 OptimizerWrapper.__init__, create_population)
    stubs = ("torch.rand / torch.randperm of agilerl.algorithms.core.registry -> arbitrary draw in [0,1) / arbitrary permutation",
             "RLParameter.dtype (user data) = float / int that accept proxies (identity / truncation on proxies)",
             "hyper-parameter attributes of the agents are overwritten with symbols AFTER construction (constructors assert concrete types)")
    assumptions = ("min <= current value <= max for every configured hyper-parameter of every agent", "learning rates: min > 0 and positive factors; other float hyper-parameters: any range (also below zero) and ANY factors",
                   "integer hyper-parameters: integral min >= 1, max and current value, shrink/grow factors fixed to the defaults 0.8 / 1.2; learning rates: min > 0")
    outside = ("that a learn step really uses the optimiser's lr (torch.optim)", "architecture / parameter / activation mutations")

    INT_FACTORS = (0.8, 1.2)

    def __init__(self, algo, hps, n_agents=2, history="initial", second=False, one_lr_object=False, mixed=False, equal_lr_values=False):
        self.algo, self.hps, self.n, self.history, self.second = algo, tuple(hps), n_agents, history, second
        self.one_lr_object, self.mixed, self.equal_lr_values = one_lr_object, mixed, equal_lr_values
        self.name = (f"hpmut-{algo.lower()}-{'+'.join(hps)}-pop{n_agents}-{history}" + ("-twice" if second else "") + ("-one-lr-object" if one_lr_object else "")
                     + ("-bounds-of-the-other-number-type" if mixed else "") + ("-equal-lr-values-in-two-objects" if equal_lr_values else ""))
        self.site = "Mutations.rl_hyperparam_mutation"
        # the INIT_HP of this case binds LR_ACTOR and LR_CRITIC to ONE float object (as two equal literals in one dict do)
        self.fsite = "OptimizerWrapper._infer_lr_name/one-object-for-two-learning-rates" if one_lr_object else None
        self.bounds = {"algorithm": algo, "configured": list(hps), "agents": n_agents, "population": history,
                       "mutations": "one per agent, in population order" + (" + a second mutation of agent 0" if second else ""),
                       "symbolic": "current values, min, max, shrink, grow per hyper-parameter; uniform and permutation draws"}

    def run(self, v):
        name, ospace, aspace, init_hp, kinds, opt_of = ALGOS[self.algo]
        if self.one_lr_object:
            init_hp = dict(init_hp, LR_ACTOR=LR_A, LR_CRITIC=LR_A)
        if self.equal_lr_values:
            # the two rates equal by VALUE but held in two float objects (e.g. parsed from a config file)
            other = float(repr(LR_A))
            if other is LR_A or other != LR_A:
                raise HarnessError("could not make a second float object of equal value")
            init_hp = dict(init_hp, LR_ACTOR=LR_A, LR_CRITIC=other)
        S = lambda default: self.fsite or default
        sym = v.mode != "real"
        cfg, spec = {}, {}
        for h in self.hps:
            kind = kinds[h]
            zk = "int" if kind == "int" else "real"
            if not self.mixed:
                mn, mx = v.scalar(f"{h}.min", zk), v.scalar(f"{h}.max", zk)
            elif kind == "int":
                # integral bounds written as floats (min=1.6e1, max=1e2)
                imn, imx = v.int(f"{h}.min"), v.int(f"{h}.max")
                mn, mx = (sym_float(imn), sym_float(imx)) if sym else (float(imn), float(imx))
            else:
                # bounds of a float hyper-parameter written as ints (max=1)
                mn, mx = v.int(f"{h}.min"), v.int(f"{h}.max")
            if kind != "int":
                sh, gr = v.real(f"{h}.shrink"), v.real(f"{h}.grow")
            else:
                # integer hyper-parameters: concrete factors keep the arithmetic linear (value*factor, then truncation)
                sh, gr = self.INT_FACTORS
            v.assume(mn <= mx)
            if kind == "real":          # a learning rate: positive range, positive factors (torch.optim rejects negative rates)
                v.assume(conj(mn > 0, sh > 0, gr > 0))
            elif kind == "int":
                v.assume(mn >= 1)
            # kind == "realfree": any range (also below zero) and any factors
            dtype = (sym_float if kind != "int" else sym_int) if sym else (float if kind != "int" else int)
            cfg[h] = RLParameter(min=mn, max=mx, shrink_factor=sh, grow_factor=gr, dtype=dtype)
            spec[h] = (kind, mn, mx, sh, gr)
        hp = HyperparameterConfig(**cfg)
        try:
            pop = create_population(name, ospace, aspace, TINY, init_hp, hp_config=hp, population_size=self.n)
            if self.history == "after-clone":
                # a generation later: every member is a clone (tournament selection builds the next population from clones)
                pop = [a.clone(index=10 + i) for i, a in enumerate(pop)]
            if self.history == "after-clone-while-rates-are-one-object":
                # both learning rates have (legitimately) become ONE object - e.g. both were clipped to a bound object their
                # two RLParameters share - and then the agent is cloned: the clone keeps the parent's optimizer bookkeeping
                shared = 0.00123
                for a in pop:
                    a.lr_actor = shared
                    a.lr_critic = shared
                pop = [a.clone(index=20 + i) for i, a in enumerate(pop)]
            if self.history == "after-step":
                # in training: every optimiser has been stepped (it holds moments), as after a learn() call
                for a in pop:
                    step_all(a, [o for os_ in opt_of.values() for o in os_])
        except Exception as ex:   # noqa: BLE001
            raise HarnessError(f"could not build the population: {type(ex).__name__}: {ex}")
        for a in pop:
            require(a, "registry", *self.hps, *[o for os_ in opt_of.values() for o in os_])
        lr_names = {(n_, on): on for n_, os_ in opt_of.items() for on in os_}
        # install symbolic current values
        cur = []
        for i, a in enumerate(pop):
            d = {}
            for h in self.hps:
                kind, mn, mx, _, _ = spec[h]
                x = v.scalar(f"agent{i}.{h}", "int" if kind == "int" else "real")
                v.assume(conj(mn <= x, x <= mx))
                setattr(a, h, x)
                d[h] = x
            cur.append(d)
        draws = []

        class Rand:
            def __init__(self, u):
                self.u = u

            def item(self):
                return self.u

        def rand(*a, **k):
            u = v.real("u")
            v.assume(conj(u >= 0, u < 1))
            draws.append(u)
            return Rand(u)

        def randperm(n, *a, **k):
            first = v.int("perm0")
            v.assume(conj(first >= 0, first < n))
            return [first] + [None] * (n - 1)

        m = Mutations(0, 0, 0, 0, 0, 1, rand_seed=1)
        obs = []
        order = list(range(self.n)) + ([0] if self.second else [])
        with patched((reg_mod, "torch", ShimTorch({"rand": rand, "randperm": randperm}))):
            for step, i in enumerate(order):
                a = pop[i]
                before = [{h: getattr(b, h) for h in self.hps} for b in pop]
                lrs_before = [{k: group_lrs(b, on) for k, on in lr_names.items()} for b in pop]
                nd = len(draws)
                ret = m.rl_hyperparam_mutation(a)
                tag = f"step{step}/agent{i}"
                obs.append(Ob(f"{tag}/returns-the-agent", ret is a))
                attr = a.mut
                obs.append(Ob(f"{tag}/mut-names-a-configured-hyper-parameter", attr in self.hps))
                if attr not in self.hps or len(draws) != nd + 1:
                    obs.append(Ob(f"{tag}/one-uniform-draw", len(draws) == nd + 1))
                    return obs
                u = draws[-1]
                kind, mn, mx, sh, gr = spec[attr]
                old = before[i][attr]
                new = getattr(a, attr)

                def clipconv(x):
                    c = smin(smax(x, mn), mx)
                    return trunc(c) if kind == "int" else c
                exp_shrink, exp_grow = clipconv(old * sh), clipconv(old * gr)
                obs.append(Ob(f"{tag}/{attr}=own-current-value-times-factor-clipped-and-converted",
                              disj(eq(new, exp_shrink), eq(new, exp_grow)), site="rl_hyperparam_mutation/own-value"))
                obs.append(Ob(f"{tag}/{attr}/shrink-iff-draw-below-half", eq(new, ite(u < 0.5, exp_shrink, exp_grow)) if isinstance(u, Sym) else eq(new, exp_shrink if u < 0.5 else exp_grow),
                              site="rl_hyperparam_mutation/own-value"))
                obs.append(Ob(f"{tag}/{attr}-in-configured-range", conj(ge(new, mn), le(new, mx)), site="rl_hyperparam_mutation/range"))
                is_int = isinstance(new, (int, np.integer)) and not isinstance(new, bool) or type(new).__name__ == "SInt"
                is_float = isinstance(new, (float, np.floating)) or type(new).__name__ in ("SReal", "Q")
                obs.append(Ob(f"{tag}/{attr}-has-the-configured-number-type", is_int if kind == "int" else is_float, site="rl_hyperparam_mutation/number-type"))
                if step == 0:
                    obs.append(Ob(f"{tag}/twin/{attr}-is-unchanged", eq(new, old), expect="sat"))
                for h in self.hps:
                    if h != attr:
                        obs.append(Ob(f"{tag}/{h}-not-selected-stays", eq(getattr(a, h), before[i][h]), site="rl_hyperparam_mutation/exactly-one"))
                for (n_, on), _ in lr_names.items():
                    now = group_lrs(a, on)
                    if n_ == attr:
                        obs.append(Ob(f"{tag}/every-param-group-of-{on}-uses-the-new-{attr}", conj(len(now) > 0, *[eq(x, new) for x in now]),
                                      site=S("rl_hyperparam_mutation/optimizer-lr")))
                    else:
                        obs.append(Ob(f"{tag}/{on}-lr-untouched", conj(len(now) == len(lrs_before[i][(n_, on)]), *[eq(x, y) for x, y in zip(now, lrs_before[i][(n_, on)])]),
                                      site=S("rl_hyperparam_mutation/optimizer-lr")))
                for j, b in enumerate(pop):
                    if j == i:
                        continue
                    obs.append(Ob(f"{tag}/agent{j}-values-do-not-move", conj(*[eq(getattr(b, h), before[j][h]) for h in self.hps]),
                                  site="rl_hyperparam_mutation/other-agents"))
                    obs.append(Ob(f"{tag}/agent{j}-optimizer-lrs-do-not-move",
                                  conj(*[eq(x, y) for k, on in lr_names.items() for x, y in zip(group_lrs(b, on), lrs_before[j][k])]),
                                  site="rl_hyperparam_mutation/other-agents"))
        return obs


def cases(tier):
    cs = [HpMutation("DQN", ["lr"]), HpMutation("DQN", ["lr", "batch_size"]), HpMutation("DQN", ["batch_size", "learn_step"], second=True),
          HpMutation("DDPG", ["lr_actor", "lr_critic"]), HpMutation("DQN", ["lr"], history="after-clone", second=True),
          HpMutation("DDPG", ["lr_critic"], n_agents=1, one_lr_object=True), HpMutation("DQN", ["lr"], n_agents=1, history="after-step"),
          HpMutation("DDPG", ["lr_actor", "lr_critic"], n_agents=1, history="after-step"),
          HpMutation("DQN", ["batch_size"], n_agents=1, mixed=True), HpMutation("DQN", ["gamma"], n_agents=1, mixed=True),
          HpMutation("DDPG", ["lr_critic"], n_agents=1, equal_lr_values=True), HpMutation("DDPG", ["lr_critic"], n_agents=1, history="after-clone-while-rates-are-one-object"),
          HpMutation("PPO", ["lr"], n_agents=1), HpMutation("TD3", ["lr_critic"], n_agents=1), HpMutation("DQN", ["gamma", "tau"], n_agents=1, second=True)]
    if tier == "thorough":
        cs += [HpMutation("DQN", ["lr", "batch_size", "learn_step"], n_agents=3), HpMutation("DDPG", ["lr_actor", "lr_critic", "batch_size"]),
               HpMutation("TD3", ["lr_actor", "lr_critic"], history="after-clone"), HpMutation("PPO", ["lr", "batch_size"]),
               HpMutation("MADDPG", ["lr_actor", "lr_critic"]), HpMutation("MADDPG", ["lr_critic"], n_agents=1, history="after-step"),
               HpMutation("TD3", ["lr_actor", "lr_critic"], n_agents=1, history="after-step"), HpMutation("PPO", ["lr"], n_agents=1, history="after-step")]
    return cs
