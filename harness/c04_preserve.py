"""C04 — mutations reuse learned weights: every weight that exists before and after keeps its value on the index range
the two shapes have in common; equal shapes => identical parameters.

Real code executed: EvolvableModule.preserve_parameters and EvolvableCNN.shrink_preserve_parameters (the functions
every recreate_network() of the evolvable modules/networks hands its (old, new) pair to) on modules whose
named_parameters() are tensors with SYMBOLIC contents; every pair of shapes with extents in a small range is enumerated.
"""
from __future__ import annotations

import itertools

import numpy as np
import torch

from .common import *   # noqa: F401,F403
from .common import Case, Ob, require, val, elems, eq, conj, disj, neg, all_eq, HarnessError
from symx.core import Sym
from symx.tensor import SymTensor

from agilerl.modules.base import EvolvableModule
from agilerl.modules.cnn import EvolvableCNN

PROPERTY = "C04"


class Net:
    def __init__(self, params):
        self.params = params          # ordered dict name -> tensor

    def named_parameters(self):
        return list(self.params.items())


def content(t):
    """object/ndarray view of the contents, indexable by tuples"""
    if isinstance(t, SymTensor):
        return t._e
    return t.detach().numpy()


def shape_pairs(rank, extents, limit=None):
    shapes = list(itertools.product(extents, repeat=rank))
    pairs = [(a, b) for a in shapes for b in shapes]
    if limit and len(pairs) > limit:
        step = len(pairs) / limit
        pairs = [pairs[int(i * step)] for i in range(limit)]
    return pairs


class Preserve(Case):
    functions = (EvolvableModule.preserve_parameters,)
    stubs = ("old/new networks = objects whose named_parameters() yield tensors with symbolic contents (the function only uses named_parameters and .data)",)
    outside = ("that each recreate_network() passes the right (old, new) pair and that names survive the rebuild (needs real layer construction)",
               "clone()(x) == self(x) on real networks (forward passes)")
    site = "EvolvableModule.preserve_parameters"

    def __init__(self, rank, extents=(1, 2, 3), limit=None, shrink=False):
        self.rank, self.extents, self.limit, self.shrink = rank, tuple(extents), limit, shrink
        self.fn = EvolvableCNN.shrink_preserve_parameters if shrink else EvolvableModule.preserve_parameters
        if shrink:
            self.functions = (EvolvableCNN.shrink_preserve_parameters,)
            self.site = "EvolvableCNN.shrink_preserve_parameters"
        self.name = f"{'shrink-' if shrink else ''}preserve-rank{rank}-ext{''.join(map(str, extents))}"
        self.bounds = {"rank": rank, "extents_per_axis": list(extents), "shape_pairs": "all" if not limit else f"{limit} evenly spaced of all",
                       "symbolic": "every element of every old and new parameter"}

    def pairs(self):
        ps = shape_pairs(self.rank, self.extents, self.limit)
        if self.shrink and self.rank > 2:
            # the CNN variant is used where trailing (spatial) axes agree (remove_layer / remove_channel)
            ps = [(a, b) for a, b in ps if a[2:] == b[2:]]
        return ps

    def run(self, v):
        old, new, fresh, oldv = {}, {}, {}, {}
        specs = []
        for n, (so, sn) in enumerate(self.pairs()):
            for tag in ("linear", "norm") if (n % 5 == 0 and so != sn) or n == 0 else ("linear",):
                key = f"model.{tag}_layer_{n}.weight"
                old[key] = v.tensor(f"old{n}{tag}", so)
                new[key] = v.tensor(f"new{n}{tag}", sn)
                specs.append((key, so, sn, tag))
        old["model.only_old.weight"] = v.tensor("only_old", (2,) * self.rank)
        new["model.only_new.weight"] = v.tensor("only_new", (2,) * self.rank)
        for k, t in new.items():
            fresh[k] = np.array(content(t), dtype=object, copy=True)
        for k, t in old.items():
            oldv[k] = np.array(content(t), dtype=object, copy=True)
        old_net, new_net = Net(old), Net(new)
        ret = self.fn(old_net, new_net)
        obs = [Ob("returns-the-new-network", ret is new_net)]
        got = dict(new_net.named_parameters())
        obs.append(Ob("parameter-names-unchanged", list(got) == list(new)))
        for key, so, sn, tag in specs:
            now = content(got[key].data)
            obs.append(Ob(f"{key}/{so}->{sn}/shape-is-the-new-shape", tuple(now.shape) == tuple(sn)))
            if tuple(now.shape) != tuple(sn):
                continue
            if self.shrink and self.rank >= 2:
                common = (min(so[0], sn[0]), min(so[1], sn[1])) + tuple(sn[2:])
            else:
                common = tuple(min(a, b) for a, b in zip(so, sn))
            keep, rest = [], []
            for idx in np.ndindex(*sn):
                if all(i < c for i, c in zip(idx, common)):
                    keep.append(eq(now[idx], oldv[key][idx]))
                else:
                    rest.append(eq(now[idx], fresh[key][idx]))
            site = self.site + ("/norm-parameters-reset-on-resize" if tag == "norm" and so != sn else "")
            obs.append(Ob(f"{key}/{so}->{sn}/common-index-range-keeps-the-old-values", conj(*keep), site=site))
            obs.append(Ob(f"{key}/{so}->{sn}/new-units-keep-their-fresh-initialisation", conj(*rest) if rest else True))
        obs.append(Ob("parameter-only-in-the-new-network-untouched", all_eq(content(got["model.only_new.weight"].data).reshape(-1).tolist(),
                                                                         fresh["model.only_new.weight"].reshape(-1).tolist())))
        for k, t in old.items():
            obs.append(Ob(f"old/{k}/old-network-not-modified", all_eq(content(t.data).reshape(-1).tolist(), oldv[k].reshape(-1).tolist()))) if k in ("model.only_old.weight", specs[0][0]) else None
        # sensitivity twin: "nothing is copied" must be refutable
        k0, so0, sn0, _ = specs[-1]
        obs.append(Ob("twin/new-parameter-keeps-fresh-values-everywhere", all_eq(content(got[k0].data).reshape(-1).tolist(), fresh[k0].reshape(-1).tolist()), expect="sat"))
        return obs


def cases(tier):
    cs = [Preserve(1), Preserve(2), Preserve(3, extents=(1, 2)), Preserve(4, extents=(1, 2), limit=60),
          Preserve(1, shrink=True), Preserve(2, shrink=True), Preserve(4, extents=(1, 2), shrink=True)]
    if tier == "thorough":
        cs += [Preserve(2, extents=(1, 2, 3, 4)), Preserve(3, extents=(1, 2, 3), limit=200), Preserve(4, extents=(1, 2, 3), limit=150),
               Preserve(5, extents=(1, 2), limit=120), Preserve(4, extents=(1, 2, 3), limit=150, shrink=True)]
    return cs


# --------------------------------------------------------------------------- real recreate_network with symbolic weights

from gymnasium import spaces as _spaces
from symx import tensor as _T
from agilerl.modules.mlp import EvolvableMLP as _MLP
from agilerl.modules.cnn import EvolvableCNN as _CNN
from agilerl.modules.multi_input import EvolvableMultiInput as _MI
from agilerl.networks.actors import StochasticActor as _SActor, DeterministicActor as _DActor
from agilerl.networks.q_networks import QNetwork as _QNet
from agilerl.networks.value_networks import ValueNetwork as _VNet

def _cfg():
    # a fresh configuration per build: the mutation methods modify the hidden_size lists IN PLACE
    return dict(encoder_config={"hidden_size": [3], "min_mlp_nodes": 1, "max_mlp_nodes": 8}, head_config={"hidden_size": [2], "min_mlp_nodes": 1, "max_mlp_nodes": 8},
                latent_dim=3, min_latent_dim=1, max_latent_dim=8)


FACTORIES = {
    "mlp": lambda: _MLP(2, 2, [3, 2], min_mlp_nodes=1, max_mlp_nodes=8, min_hidden_layers=1, max_hidden_layers=3),
    "mlp-newgelu": lambda: _MLP(2, 2, [3, 2], activation="GELU", new_gelu=True, min_mlp_nodes=1, max_mlp_nodes=8, min_hidden_layers=1, max_hidden_layers=3),
    "mlp-layernorm-off": lambda: _MLP(2, 2, [3, 2], layer_norm=False, output_activation="Tanh", min_mlp_nodes=1, max_mlp_nodes=8, min_hidden_layers=1, max_hidden_layers=3),
    "cnn": lambda: _CNN([1, 6, 6], 2, [2, 3], [2, 2], [1, 1], min_channel_size=1, max_channel_size=6, min_hidden_layers=1, max_hidden_layers=3),
    "multi-input": lambda: _MI(_spaces.Dict({"img": _spaces.Box(0, 1, (1, 4, 4), dtype=np.float32), "vec": _spaces.Box(-1, 1, (2,), dtype=np.float32)}), 2, latent_dim=3,
                               min_latent_dim=1, max_latent_dim=8, cnn_config={"channel_size": [2], "kernel_size": [2], "stride_size": [1]}, vector_space_mlp=False),
    "stochastic-actor-box": lambda: _SActor(_spaces.Box(-1, 1, (2,)), _spaces.Box(-1, 1, (2,)), **_cfg()),
    "stochastic-actor-discrete": lambda: _SActor(_spaces.Box(-1, 1, (2,)), _spaces.Discrete(2), **_cfg()),
    "qnetwork": lambda: _QNet(_spaces.Box(-1, 1, (2,)), _spaces.Discrete(2), **_cfg()),
    "value": lambda: _VNet(_spaces.Box(-1, 1, (2,)), **_cfg()),
    "deterministic-actor": lambda: _DActor(_spaces.Box(-1, 1, (2,)), _spaces.Box(-1, 1, (2,)), **_cfg()),
}


def _leaf_kinds(mod):
    """name -> class name of every leaf layer (activations, normalisations, linear / conv layers)"""
    return {n: type(x).__name__ for n, x in mod.named_modules() if n and not list(x.children())}


def _owner(mod, dotted):
    parts = dotted.split(".")
    for p in parts[:-1]:
        mod = getattr(mod, p)
    return mod, parts[-1]


def _call(mod, dotted, kwargs):
    o, name = _owner(mod, dotted)
    return getattr(o, name)(**kwargs)


class RecreateReal(Case):
    """a REAL mutation (real recreate_network, real new layers) of a real module whose current weights are symbols: which
    (old, new) pair every recreate_network hands to preserve_parameters, and whether names survive the rebuild"""
    stubs = ("none: the real module and its real recreate_network; the module's current parameters are replaced by symbolic parameters before the mutation; "
             "symbolic content written into the freshly built real parameters is captured in a shadow store",)
    outside = ("forward passes on the mutated network (clone()(x) == self(x))", "EvolvableMultiInput, LSTM, SimBa, ResNet, GPT, BERT")

    def __init__(self, module, method, kwargs):
        self.module, self.method, self.kwargs = module, method, dict(kwargs)
        self.name = f"recreate-{module}-{method}" + ("" if not kwargs else "-" + "-".join(f"{k}{v_}" for k, v_ in kwargs.items()))
        self.site = f"recreate_network/{module}.{method}"
        self.functions = (EvolvableModule.preserve_parameters,)
        self.bounds = {"module": module, "mutation": method, "arguments": kwargs, "symbolic": "every weight of the module before the mutation"}

    def run(self, v):
        torch.manual_seed(3)
        try:
            m = FACTORIES[self.module]()
        except Exception as ex:   # noqa: BLE001
            raise HarnessError(f"could not build {self.module}: {type(ex).__name__}: {ex}")
        old = {}
        for name, p in list(m.named_parameters()):
            sym = v.tensor(f"w.{name}", tuple(p.shape))
            o, attr = _owner(m, name)
            setattr(o, attr, torch.nn.Parameter(sym if v.mode != "real" else sym.clone()))
            old[name] = np.array(content(dict(m.named_parameters())[name].data), dtype=object, copy=True)
        _T.SHADOW.clear()
        kinds0 = _leaf_kinds(m)
        # `real_param.data = symbolic_tensor` is performed natively by torch (no dispatch): intercept the property on
        # nn.Parameter so that the symbolic content lands in the shadow store instead of rebinding storage
        _get, _set = torch.Tensor.data.__get__, torch.Tensor.data.__set__

        def _data_set(self_, value):
            if isinstance(value, SymTensor) and not isinstance(self_, SymTensor):
                if tuple(value.shape) != tuple(self_.shape):
                    raise HarnessError(".data assignment with a different shape onto a real parameter")
                _T.SHADOW[self_.data_ptr()] = (self_, np.array(value._e, dtype=object, copy=True))
            else:
                _set(self_, value)
        patches = [(torch.nn.Parameter, "data", property(lambda self_: _get(self_), _data_set))] if v.mode != "real" else []
        with patched(*patches):
            _call(m, self.method, self.kwargs)
        res = []
        new = dict(m.named_parameters())
        res.append(Ob("parameters-that-exist-before-and-after", len(set(new) & set(old)) > 0))
        if "layer" not in self.method:
            # a mutation that changes widths only keeps every layer: every parameter keeps its NAME (the copy matches by name)
            res.append(Ob("every-parameter-keeps-its-name-across-the-rebuild", set(new) == set(old), site=self.site + "/parameter-names"))
        # "the same function" also needs the same parameter-free layers: an activation / normalisation layer that exists
        # under the same name before and after the rebuild is of the same kind
        kinds1 = _leaf_kinds(m)
        changed = sorted(k for k in set(kinds0) & set(kinds1) if kinds0[k] != kinds1[k])
        res.append(Ob("layers-that-exist-before-and-after-keep-their-kind-(activation,-normalisation)", not changed, site=self.site + "/layer-kinds"))
        for name in sorted(new):
            if name not in old:
                continue
            now = _T.effective(new[name].data) if v.mode != "real" else new[name].detach().numpy()
            so, sn = old[name].shape, tuple(now.shape)
            if len(so) != len(sn):
                res.append(Ob(f"{name}/rank-kept", False))
                continue
            common = tuple(min(a, b) for a, b in zip(so, sn))
            keep = [eq(now[idx] if isinstance(now[idx], Sym) else float(now[idx]), old[name][idx]) for idx in np.ndindex(*common)]
            site = self.site + ("/norm-parameters-reset-on-resize" if "norm" in name and so != sn else "")
            if "norm" in name and so != sn:
                site = "EvolvableModule.preserve_parameters/norm-parameters-reset-on-resize" if "shrink" not in self.method else site
            res.append(Ob(f"{name}/{so}->{sn}/learned-weights-carried-over-on-the-common-index-range", conj(*keep) if keep else True, site=site))
        names = [n for n in sorted(set(new) & set(old)) if "norm" not in n]
        if names:
            n0 = names[0]
            now = _T.effective(new[n0].data) if v.mode != "real" else new[n0].detach().numpy()
            res.append(Ob("twin/first-parameter-is-all-zero", conj(*[eq(x if isinstance(x, Sym) else float(x), 0) for x in np.asarray(now, dtype=object).reshape(-1)]), expect="sat"))
        _T.SHADOW.clear()
        return res


_REAL_CASES = [
    ("mlp", "add_node", {"hidden_layer": 0, "numb_new_nodes": 1}), ("mlp", "remove_node", {"hidden_layer": 0, "numb_new_nodes": 1}),
    ("mlp", "add_layer", {}), ("mlp", "remove_layer", {}),
    ("cnn", "add_channel", {"hidden_layer": 0, "numb_new_channels": 1}), ("cnn", "remove_channel", {"hidden_layer": 1, "numb_new_channels": 1}),
    ("stochastic-actor-box", "add_latent_node", {"numb_new_nodes": 1}), ("stochastic-actor-box", "remove_latent_node", {"numb_new_nodes": 1}),
    ("stochastic-actor-box", "add_latent_node", {"numb_new_nodes": 100}),
    ("stochastic-actor-discrete", "add_latent_node", {"numb_new_nodes": 1}), ("qnetwork", "add_latent_node", {"numb_new_nodes": 1}),
    ("qnetwork", "encoder.add_node", {"hidden_layer": 0, "numb_new_nodes": 1}), ("value", "remove_latent_node", {"numb_new_nodes": 1}),
    ("deterministic-actor", "head_net.add_node", {"hidden_layer": 0, "numb_new_nodes": 1}),
    ("multi-input", "add_latent_node", {"numb_new_nodes": 1}), ("multi-input", "remove_latent_node", {"numb_new_nodes": 1}), ("value", "add_latent_node", {"numb_new_nodes": 1}),
    ("mlp-newgelu", "add_node", {"hidden_layer": 0, "numb_new_nodes": 1}), ("mlp-layernorm-off", "remove_node", {"hidden_layer": 0, "numb_new_nodes": 1}),
]
_orig_cases = cases


def cases(tier):   # noqa: F811
    cs = _orig_cases(tier)
    cs += [RecreateReal(*c) for c in _REAL_CASES]
    # multi-input networks: a latent mutation rebuilds the nested extractors from their CURRENT architecture, so what they have
    # learned since an earlier nested mutation can be carried over at all (C03's harness)
    from .c03_arch import MultiInputMutation
    cs += [MultiInputMutation("add_latent_node", False, True), MultiInputMutation("remove_latent_node", True, True)]
    if tier == "thorough":
        cs += [RecreateReal("cnn", "remove_layer", {}), RecreateReal("cnn", "add_layer", {}), RecreateReal("value", "head_net.remove_node", {"hidden_layer": 0, "numb_new_nodes": 1}),
               RecreateReal("deterministic-actor", "add_latent_node", {"numb_new_nodes": 2})]
    return cs
