"""C04 — mutations reuse learned weights: every weight that exists before and after keeps its value on the index range
the two shapes have in common; equal shapes => identical parameters.

Real code executed: EvolvableModule.preserve_parameters and EvolvableCNN.shrink_preserve_parameters (the functions
every recreate_network() of the evolvable modules/networks hands its (old, new) pair to) on modules whose
named_parameters() are tensors with SYMBOLIC contents; every pair of shapes with extents in a small range is enumerated.
"""
from __future__ import annotations

import itertools

import numpy as np
import torch

from .common import *   # noqa: F401,F403
from .common import Case, Ob, require, val, elems, eq, conj, disj, neg, all_eq, HarnessError
from symx.core import Sym
from symx.tensor import SymTensor

from agilerl.modules.base import EvolvableModule
from agilerl.modules.cnn import EvolvableCNN

PROPERTY = "C04"


class Net:
    def __init__(self, params):
        self.params = params          # ordered dict name -> tensor

    def named_parameters(self):
        return list(self.params.items())


def content(t):
    """object/ndarray view of the contents, indexable by tuples"""
    if isinstance(t, SymTensor):
        return t._e
    return t.detach().numpy()


def shape_pairs(rank, extents, limit=None):
    shapes = list(itertools.product(extents, repeat=rank))
    pairs = [(a, b) for a in shapes for b in shapes]
    if limit and len(pairs) > limit:
        step = len(pairs) / limit
        pairs = [pairs[int(i * step)] for i in range(limit)]
    return pairs


class Preserve(Case):
    functions = (EvolvableModule.preserve_parameters,)
    stubs = ("old/new networks = objects whose named_parameters() yield tensors with symbolic contents (the function only uses named_parameters and .data)",)
    outside = ("that each recreate_network() passes the right (old, new) pair and that names survive the rebuild (needs real layer construction)",
               "clone()(x) == self(x) on real networks (forward passes)")
    site = "EvolvableModule.preserve_parameters"

    def __init__(self, rank, extents=(1, 2, 3), limit=None, shrink=False):
        self.rank, self.extents, self.limit, self.shrink = rank, tuple(extents), limit, shrink
        self.fn = EvolvableCNN.shrink_preserve_parameters if shrink else EvolvableModule.preserve_parameters
        if shrink:
            self.functions = (EvolvableCNN.shrink_preserve_parameters,)
            self.site = "EvolvableCNN.shrink_preserve_parameters"
        self.name = f"{'shrink-' if shrink else ''}preserve-rank{rank}-ext{''.join(map(str, extents))}"
        self.bounds = {"rank": rank, "extents_per_axis": list(extents), "shape_pairs": "all" if not limit else f"{limit} evenly spaced of all",
                       "symbolic": "every element of every old and new parameter"}

    def pairs(self):
        ps = shape_pairs(self.rank, self.extents, self.limit)
        if self.shrink and self.rank > 2:
            # the CNN variant is used where trailing (spatial) axes agree (remove_layer / remove_channel)
            ps = [(a, b) for a, b in ps if a[2:] == b[2:]]
        return ps

    def run(self, v):
        old, new, fresh, oldv = {}, {}, {}, {}
        specs = []
        for n, (so, sn) in enumerate(self.pairs()):
            for tag in ("linear", "norm") if (n % 5 == 0 and so != sn) or n == 0 else ("linear",):
                key = f"model.{tag}_layer_{n}.weight"
                old[key] = v.tensor(f"old{n}{tag}", so)
                new[key] = v.tensor(f"new{n}{tag}", sn)
                specs.append((key, so, sn, tag))
        old["model.only_old.weight"] = v.tensor("only_old", (2,) * self.rank)
        new["model.only_new.weight"] = v.tensor("only_new", (2,) * self.rank)
        for k, t in new.items():
            fresh[k] = np.array(content(t), dtype=object, copy=True)
        for k, t in old.items():
            oldv[k] = np.array(content(t), dtype=object, copy=True)
        old_net, new_net = Net(old), Net(new)
        ret = self.fn(old_net, new_net)
        obs = [Ob("returns-the-new-network", ret is new_net)]
        got = dict(new_net.named_parameters())
        obs.append(Ob("parameter-names-unchanged", list(got) == list(new)))
        for key, so, sn, tag in specs:
            now = content(got[key].data)
            obs.append(Ob(f"{key}/{so}->{sn}/shape-is-the-new-shape", tuple(now.shape) == tuple(sn)))
            if tuple(now.shape) != tuple(sn):
                continue
            if self.shrink and self.rank >= 2:
                common = (min(so[0], sn[0]), min(so[1], sn[1])) + tuple(sn[2:])
            else:
                common = tuple(min(a, b) for a, b in zip(so, sn))
            keep, rest = [], []
            for idx in np.ndindex(*sn):
                if all(i < c for i, c in zip(idx, common)):
                    keep.append(eq(now[idx], oldv[key][idx]))
                else:
                    rest.append(eq(now[idx], fresh[key][idx]))
            site = self.site + ("/norm-parameters-reset-on-resize" if tag == "norm" and so != sn else "")
            obs.append(Ob(f"{key}/{so}->{sn}/common-index-range-keeps-the-old-values", conj(*keep), site=site))
            obs.append(Ob(f"{key}/{so}->{sn}/new-units-keep-their-fresh-initialisation", conj(*rest) if rest else True))
        obs.append(Ob("parameter-only-in-the-new-network-untouched", all_eq(content(got["model.only_new.weight"].data).reshape(-1).tolist(),
                                                                         fresh["model.only_new.weight"].reshape(-1).tolist())))
        for k, t in old.items():
            obs.append(Ob(f"old/{k}/old-network-not-modified", all_eq(content(t.data).reshape(-1).tolist(), oldv[k].reshape(-1).tolist()))) if k in ("model.only_old.weight", specs[0][0]) else None
        # sensitivity twin: "nothing is copied" must be refutable
        k0, so0, sn0, _ = specs[-1]
        obs.append(Ob("twin/new-parameter-keeps-fresh-values-everywhere", all_eq(content(got[k0].data).reshape(-1).tolist(), fresh[k0].reshape(-1).tolist()), expect="sat"))
        return obs


def cases(tier):
    cs = [Preserve(1), Preserve(2), Preserve(3, extents=(1, 2)), Preserve(4, extents=(1, 2), limit=60),
          Preserve(1, shrink=True), Preserve(2, shrink=True), Preserve(4, extents=(1, 2), shrink=True)]
    if tier == "thorough":
        cs += [Preserve(2, extents=(1, 2, 3, 4)), Preserve(3, extents=(1, 2, 3), limit=200), Preserve(4, extents=(1, 2, 3), limit=150),
               Preserve(5, extents=(1, 2), limit=120), Preserve(4, extents=(1, 2, 3), limit=150, shrink=True)]
    return cs
