"""C17 — advantage estimation follows its definition, respects episode boundaries, rows stay aligned.

Real code executed: PPO.learn / IPPO.learn + _learn_individual up to the first call of the module-global
get_experiences_samples (captured), including stack_experiences, preprocess_observation, the GAE loop,
is_vectorized_experiences, flatten_experiences, vectorize_experiences_by_agent,
concatenate_experiences_into_batches.
"""
from __future__ import annotations

import numpy as np
import torch
from gymnasium import spaces

from .common import *   # noqa: F401,F403
from .common import Capture, StubNet, Case, Ob, patched, ShimTorch, require, val, elems, eq, conj, disj, neg, all_eq, HarnessError
from symx.core import ite

import agilerl.algorithms.ppo as ppo_mod
import agilerl.algorithms.ippo as ippo_mod
import agilerl.utils.algo_utils as au
from agilerl.algorithms.ppo import PPO
from agilerl.algorithms.ippo import IPPO

PROPERTY = "C17"


def gae_reference(T, E, rew, val_, done, next_done, next_value, gamma, lam, variant="spec"):
    """The recursion of the statement, per environment, in mode-agnostic arithmetic.
    rew/val_/done: functions (t, e) -> scalar; next_done/next_value: e -> scalar."""
    A = [[None] * E for _ in range(T)]
    for e in range(E):
        last = 0
        for t in reversed(range(T)):
            if t == T - 1:
                nnt = 1 - next_done(e)
                nv = next_value(e)
            else:
                d = done(t + 1, e) if variant != "wrong-done-index" else done(t, e)
                nnt = 1 - d
                nv = val_(t + 1, e)
            delta = rew(t, e) + gamma * nv * nnt - val_(t, e)
            last = delta + gamma * lam * nnt * last
            A[t][e] = last
    return A


def rows_alignment_obligations(prefix, rows, expected, site):
    """rows: list over flat rows of tuples of scalars (all columns);
    expected: dict key -> tuple of scalars (same column order).  Bijection up to permutation of rows."""
    obs = []
    n = len(rows)
    obs.append(Ob(f"{prefix}/row-count", n == len(expected), site=site))
    if n != len(expected):
        return obs
    def same(r, x):
        return conj(*[eq(a, b) for a, b in zip(r, x)])
    for i, r in enumerate(rows):
        obs.append(Ob(f"{prefix}/row{i}-is-some-step", disj(*[same(r, x) for x in expected.values()]), site=site))
    for k, x in expected.items():
        obs.append(Ob(f"{prefix}/step{k}-present", disj(*[same(r, x) for r in rows]), site=site))
    return obs


def obs_space(kind, OD):
    box = spaces.Box(-1, 1, (OD,))
    if kind == "tuple":
        return spaces.Tuple((box, spaces.Box(-1, 1, (OD,))))
    if kind == "dict":
        return spaces.Dict({"k0": box, "k1": spaces.Box(-1, 1, (OD,))})
    return box


def mk_obs(v, name, lead, kind, OD):
    if kind == "tuple":
        return tuple(v.array(f"{name}.c{k}", lead + (OD,)) for k in range(2))
    if kind == "dict":
        return {f"k{k}": v.array(f"{name}.k{k}", lead + (OD,)) for k in range(2)}
    return v.array(name, lead + (OD,))


def comps(o):
    if isinstance(o, dict):
        return [o[k] for k in sorted(o)]
    if isinstance(o, (tuple, list)):
        return list(o)
    return [o]


def obs_row(o, *idx):
    out = []
    for c in comps(o):
        out += elems(c[idx] if idx else c)
    return out


def nrows(o):
    return comps(o)[0].shape[0]


def flat_rows(*cols):
    """cols: tensors with the same leading dim -> list of tuples of scalars per row"""
    n = nrows(cols[0])
    rows = []
    for i in range(n):
        r = []
        for c in cols:
            r += obs_row(c, i)
        rows.append(tuple(r))
    return rows


class PPOGae(Case):
    functions = (PPO.learn, au.stack_experiences, au.flatten_experiences, au.is_vectorized_experiences,
                 au.preprocess_observation, au.obs_to_tensor)
    stubs = ("critic = StubNet returning fresh symbols nv[e] (uninterpreted in its input)",
             "module-global get_experiences_samples of agilerl.algorithms.ppo wrapped: captures the flattened rows and stops the run",
             "agilerl.utils.algo_utils.torch -> ShimTorch (from_numpy/as_tensor accept proxy arrays); not in real mode")
    assumptions = ("done flags and next_done are 0/1",)
    outside = ("minibatch loop, policy/value losses, optimiser (after the capture point)",)
    site = "PPO.learn/gae"

    def __init__(self, T, E, OD=1, vectorized=True, obs="box", int_rewards=False):
        self.T, self.E, self.OD, self.vec, self.obs, self.int_rewards = T, E, OD, vectorized, obs, int_rewards
        self.name = f"ppo-gae-T{T}-E{E}-od{OD}" + ("" if vectorized else "-nonvec") + ("" if obs == "box" else f"-{obs}") + ("-integer-rewards" if int_rewards else "")
        self.bounds = {"T": T, "num_envs": E, "obs_dim": OD, "vectorized": vectorized, "observation_space": obs,
                       "symbolic": "rewards, values, dones, next_done, bootstrap value, log-probs, obs/action labels, gamma, gae_lambda"}
        self._agent = None

    def agent(self):
        if self._agent is None:
            self._agent = PPO(obs_space(self.obs, self.OD), spaces.Discrete(2), share_encoders=False)
        return self._agent

    def run(self, v):
        T, E, OD = self.T, self.E, self.OD
        agent = self.agent()
        require(ppo_mod, "get_experiences_samples")
        require(agent, "critic", "gamma", "gae_lambda")
        shp = (E,) if self.vec else ()
        S = [mk_obs(v, f"s{t}", shp, self.obs, OD) for t in range(T)]
        AC = [v.array(f"a{t}", shp) for t in range(T)]
        LP = [v.array(f"lp{t}", shp) for t in range(T)]
        R = [v.array(f"r{t}", shp, "int" if self.int_rewards else "real") for t in range(T)]      # (an environment may hand out integer rewards)
        D = [v.array(f"d{t}", shp, "flag") for t in range(T)]
        VA = [v.array(f"v{t}", shp) for t in range(T)]
        NS = mk_obs(v, "ns", shp, self.obs, OD)
        ND = v.array("nd", shp, "flag")
        gamma, lam = v.real("gamma"), v.real("lam")
        distinct(v, [x for t in range(T) for x in obs_row(S[t])], "observation labels pairwise distinct")
        nE = E if self.vec else 1
        critic = StubNet(v, "critic", lambda x: (batch_of(x), 1))
        cap = {}

        def spy(idxs, *exps):
            cap["rows"] = exps
            raise Capture()

        patches = [(ppo_mod, "get_experiences_samples", spy), (agent, "critic", critic),
                   (agent, "gamma", gamma), (agent, "gae_lambda", lam)]
        if v.mode != "real":
            patches.append((au, "torch", ShimTorch()))
        if not self.vec and v.mode == "real":
            # scalar entries as the training loop produces them (python/np scalars per step)
            pass
        with patched(*patches):
            try:
                agent.learn((S, AC, LP, R, D, VA, NS, ND))
            except Capture:
                pass
        if "rows" not in cap:
            raise HarnessError("capture point get_experiences_samples was not reached")
        st, ac, lp, adv, ret, vv = cap["rows"]
        # the critic must have been asked for the value of the final next observation
        obs = []
        cin = critic.calls[0][0] if critic.calls else None
        obs.append(Ob("bootstrap-from-next-obs", cin is not None and all_eq(obs_row(cin), obs_row(NS)), site="PPO.learn/bootstrap-input"))
        g = lambda arr, t, e: val(arr[t], e) if self.vec else val(arr[t])
        nvt = critic.calls[0][3]
        A = gae_reference(T, nE, lambda t, e: g(R, t, e), lambda t, e: g(VA, t, e), lambda t, e: g(D, t, e),
                          lambda e: val(ND, e) if self.vec else val(ND), lambda e: val(nvt, e, 0), gamma, lam)
        Awrong = gae_reference(T, nE, lambda t, e: g(R, t, e), lambda t, e: g(VA, t, e), lambda t, e: g(D, t, e),
                               lambda e: val(ND, e) if self.vec else val(ND), lambda e: val(nvt, e, 0), gamma, lam,
                               variant="wrong-done-index")
        expected, expected_wrong = {}, {}
        for t in range(T):
            for e in range(nE):
                srow = tuple(obs_row(S[t], e) if self.vec else obs_row(S[t]))
                base = srow + (g(AC, t, e), g(LP, t, e))
                expected[(t, e)] = base + (A[t][e], A[t][e] + g(VA, t, e), g(VA, t, e))
                expected_wrong[(t, e)] = base + (Awrong[t][e], Awrong[t][e] + g(VA, t, e), g(VA, t, e))
        rows = flat_rows(st, ac, lp, adv, ret, vv)
        obs += rows_alignment_obligations("rows", rows, expected, self.site)
        if T > 1:
            k = (0, 0)
            obs.append(Ob("twin/dones[t]-instead-of-dones[t+1]", disj(*[conj(*[eq(a, b) for a, b in zip(r, expected_wrong[k])]) for r in rows]),
                          expect="sat"))
        return obs


def batch_of(x):
    return nrows(x)


def distinct(v, xs, text):
    xs = list(xs)
    for i in range(len(xs)):
        for j in range(i + 1, len(xs)):
            v.assume(neg(eq(xs[i], xs[j])) if v.mode == "sym" else xs[i] != xs[j], text if (i, j) == (0, 1) else None)


class IPPOGae(Case):
    functions = (IPPO.learn, IPPO._learn_individual, IPPO.assemble_shared_inputs, au.stack_experiences,
                 au.vectorize_experiences_by_agent, au.concatenate_experiences_into_batches, au.experience_to_tensors,
                 au.concatenate_tensors, au.reshape_from_space, au.preprocess_observation, au.maybe_add_batch_dim)
    stubs = ("critic = StubNet returning fresh symbols per row of its input (uninterpreted in its input)",
             "module-global get_experiences_samples of agilerl.algorithms.ippo wrapped: captures the flattened rows and stops the run",
             "agilerl.utils.algo_utils.torch -> ShimTorch; not in real mode")
    assumptions = ("done flags and next_done are 0/1", "observation labels pairwise distinct (rows are identified by their observation)")
    outside = ("minibatch loop, losses, optimisers (after the capture point)", "heterogeneous groups are run one group at a time")

    def __init__(self, T, E, A, OD=1, obs="box", ids=None):
        self.T, self.E, self.A, self.OD, self.obs, self.ids = T, E, A, OD, obs, ids
        self.name = f"ippo-gae-T{T}-E{E}-A{A}-od{OD}" + ("" if obs == "box" else f"-{obs}") + ("" if ids is None else "-ids-" + ".".join(ids))
        self.bounds = {"T": T, "num_envs": E, "homogeneous_agents": A, "obs_dim": OD, "observation_space": obs,
                       "symbolic": "per (agent,t,env): reward, value, done, log-prob, obs/action labels; next_done, bootstrap values, gamma, gae_lambda"}
        self._agent = None

    def agent(self):
        if self._agent is None:
            ids = list(self.ids) if self.ids else [f"ag_{i}" for i in range(self.A)]
            self._agent = IPPO([obs_space(self.obs, self.OD)] * self.A, [spaces.Discrete(2)] * self.A, agent_ids=ids)
        return self._agent

    def run(self, v):
        T, E, A, OD = self.T, self.E, self.A, self.OD
        agent = self.agent()
        ids = list(agent.agent_ids)
        require(ippo_mod, "get_experiences_samples")
        require(agent, "critics", "gamma", "gae_lambda")
        # exactly the per-agent lists of per-step arrays that train_multi_agent_on_policy builds
        S = {a: [mk_obs(v, f"s_{a}_{t}", (E,), self.obs, OD) for t in range(T)] for a in ids}
        AC = {a: [v.array(f"a_{a}_{t}", (E, 1)) for t in range(T)] for a in ids}
        LP = {a: [v.array(f"lp_{a}_{t}", (E, 1)) for t in range(T)] for a in ids}
        R = {a: [v.array(f"r_{a}_{t}", (E,)) for t in range(T)] for a in ids}
        D = {a: [v.array(f"d_{a}_{t}", (E,), "flag") for t in range(T)] for a in ids}
        VA = {a: [v.array(f"v_{a}_{t}", (E, 1)) for t in range(T)] for a in ids}
        NS = {a: mk_obs(v, f"ns_{a}", (E,), self.obs, OD) for a in ids}
        ND = {a: v.array(f"nd_{a}", (E,), "flag") for a in ids}
        gamma, lam = v.real("gamma"), v.real("lam")
        labels = [x for a in ids for t in range(T) for x in obs_row(S[a][t])]
        distinct(v, labels, "observation labels pairwise distinct")
        distinct(v, [x for a in ids for x in obs_row(NS[a])], None)
        critic = StubNet(v, "critic", lambda x: (batch_of(x), 1))
        cap = {}

        def spy(idxs, *exps):
            cap["rows"] = exps
            raise Capture()

        patches = [(ippo_mod, "get_experiences_samples", spy), (agent, "critics", [critic]),
                   (agent, "gamma", gamma), (agent, "gae_lambda", lam)]
        if v.mode != "real":
            patches.append((au, "torch", ShimTorch()))
        with patched(*patches):
            try:
                agent.learn((S, AC, LP, R, D, VA, NS, ND))
            except Capture:
                pass
        if "rows" not in cap:
            raise HarnessError("capture point get_experiences_samples was not reached")
        st, ac, lp, adv, ret, vv = cap["rows"]
        obs = []
        if not critic.calls:
            raise HarnessError("critic was not called before the capture point")
        cin, _, _, cout = critic.calls[0]
        nr = nrows(cin)
        obs.append(Ob("bootstrap/critic-sees-every-final-next-obs", nr == A * E, site="IPPO._learn_individual/bootstrap-input"))

        def next_value(a, e):
            # the critic's output for the row that holds agent a's final next observation in env e
            r = None
            for i in reversed(range(nr)):
                hit = all_eq(obs_row(cin, i), obs_row(NS[a], e))
                r = val(cout, i, 0) if r is None else ite(hit, val(cout, i, 0), r)
            return r

        labels_exp, est_exp = {}, {}
        for ai, a in enumerate(ids):
            Aref = gae_reference(T, E, lambda t, e: val(R[a][t], e), lambda t, e: val(VA[a][t], e, 0),
                                 lambda t, e: val(D[a][t], e), lambda e: val(ND[a], e),
                                 lambda e: next_value(a, e), gamma, lam)
            for t in range(T):
                for e in range(E):
                    srow = tuple(obs_row(S[a][t], e))
                    labels_exp[(a, t, e)] = srow + (val(AC[a][t], e, 0), val(LP[a][t], e, 0), val(VA[a][t], e, 0))
                    est_exp[(a, t, e)] = srow + (Aref[t][e], Aref[t][e] + val(VA[a][t], e, 0))
        # (i) recorded quantities (action, old log-prob, old value) sit on the row of their own observation
        obs += rows_alignment_obligations("labels", flat_rows(st, ac, lp, vv), labels_exp, "IPPO._learn_individual/row-alignment")
        # (ii) advantage / return on the row of an observation are the estimates of that (agent, step, env)
        obs += rows_alignment_obligations("estimates", flat_rows(st, adv, ret), est_exp, "IPPO._learn_individual/gae")
        return obs


# --------------------------------------------------------------------------- rollout collection (training loops)

import agilerl.training.train_on_policy as top_mod
import agilerl.training.train_multi_agent_on_policy as tmop_mod
from symx.shim import ShimNumpy
from symx.tensor import _filled


class _Bar:
    def update(self, *a, **k):
        pass

    def close(self):
        pass


def _np_zeros_obj(shape, *a, **k):
    shape = (shape,) if isinstance(shape, int) else tuple(shape)
    return _filled(shape, 0)


def either(a, b):
    """episode ended: terminated or truncated (mode-agnostic, non-forking)"""
    return disj(a, b)


class PPOCollect(Case):
    """the rollout-collection loop of train_on_policy: what it hands to agent.learn"""
    functions = (top_mod.train_on_policy,)
    stubs = ("environment = scripted vector env returning symbolic observations, rewards, terminated and truncated flags",
             "agent = duck agent: get_action returns fresh symbols per step, learn() captures its argument and stops the run",
             "tqdm.trange / print of agilerl.training.train_on_policy silenced; np.zeros -> object zeros (sym modes)")
    outside = ("evaluation, tournament/mutation, checkpoints, logging (after the first learn call)",)
    site = "train_on_policy/rollout"

    def __init__(self, T, E):
        self.T, self.E = T, E
        self.name = f"ppo-collect-T{T}-E{E}"
        self.bounds = {"T": T, "num_envs": E, "symbolic": "observations, actions, log-probs, values, rewards, terminated and truncated flags of every step and env"}

    def run(self, v):
        T, E = self.T, self.E
        OBS = [v.array(f"o{t}", (E, 1)) for t in range(T + 1)]          # o0 = reset obs, o{t+1} = next obs of step t
        ACT = [v.array(f"a{t}", (E,)) for t in range(T)]
        LP = [v.array(f"lp{t}", (E,)) for t in range(T)]
        VAL = [v.array(f"v{t}", (E,)) for t in range(T)]
        REW = [v.array(f"r{t}", (E,)) for t in range(T)]
        TERM = [v.array(f"term{t}", (E,), "bool") for t in range(T)]
        TRUNC = [v.array(f"trunc{t}", (E,), "bool") for t in range(T)]
        cap, seen_obs, seen_act = {}, [], []

        class Env:
            num_envs = E

            def reset(self, *a, **k):
                return OBS[0], {}

            def step(self, action):
                t = len(seen_act)
                seen_act.append(action)
                return OBS[t + 1], REW[t], TERM[t], TRUNC[t], {}

        class Agent:
            steps = [0]
            learn_step = T * E
            action_space = spaces.Discrete(2)
            scores = []
            fitness = []

            def set_training_mode(self, m):
                pass

            def get_action(self, state, action_mask=None):
                t = len(seen_obs)
                seen_obs.append(state)
                return ACT[t], LP[t], v.array(f"ent{t}", (E,)), VAL[t]

            def learn(self, experiences):
                cap["exp"] = experiences
                raise Capture()

        patches = [(top_mod, "trange", lambda *a, **k: _Bar()), (top_mod, "print", lambda *a, **k: None)]
        if v.mode != "real":
            patches.append((top_mod, "np", ShimNumpy({"zeros": _np_zeros_obj})))
        with patched(*patches):
            try:
                top_mod.train_on_policy(Env(), "stub-env", "PPO", [Agent()], max_steps=T * E, evo_steps=T * E, verbose=False)
            except Capture:
                pass
        if "exp" not in cap:
            raise HarnessError("agent.learn was not reached")
        st, ac, lp, rw, dn, va, ns, nd = cap["exp"]
        obs = [Ob("rollout-length", all(len(x) == T for x in (st, ac, lp, rw, dn, va)))]
        for t in range(T):
            for e in range(E):
                obs.append(Ob(f"t{t}e{e}/policy-acts-on-current-observation", all_eq(seen_obs[t][e], OBS[t][e])))
                obs.append(Ob(f"t{t}e{e}/stored-obs-action-logp-value-reward-belong-to-this-step",
                              conj(all_eq(st[t][e], OBS[t][e]), eq(val(ac[t], e), val(ACT[t], e)), eq(val(lp[t], e), val(LP[t], e)),
                                   eq(val(va[t], e), val(VAL[t], e)), eq(val(rw[t], e), val(REW[t], e)), eq(val(seen_act[t], e), val(ACT[t], e)))))
                ended = either(val(TERM[t], e), val(TRUNC[t], e))
                nxt = val(dn[t + 1], e) if t + 1 < T else val(nd, e)
                obs.append(Ob(f"t{t}e{e}/episode-end-(terminated-or-truncated)-is-the-next-done-flag", eq(nxt != 0, ended),
                              site="train_on_policy/done-flags"))
                obs.append(Ob(f"t{t}e{e}/twin/done-ignores-truncation", eq(nxt != 0, val(TERM[t], e)), expect="sat"))
        for e in range(E):
            obs.append(Ob(f"e{e}/bootstrap-observation-is-the-last-next-observation", all_eq(ns[e], OBS[T][e])))
        return obs


class IPPOCollect(Case):
    """the rollout-collection loop of train_multi_agent_on_policy"""
    functions = (tmop_mod.train_multi_agent_on_policy,)
    stubs = PPOCollect.stubs
    outside = PPOCollect.outside
    site = "train_multi_agent_on_policy/rollout"

    def __init__(self, T, E, A):
        self.T, self.E, self.A = T, E, A
        self.name = f"ippo-collect-T{T}-E{E}-A{A}"
        self.bounds = {"T": T, "num_envs": E, "agents": A, "symbolic": "per agent: observations, actions, log-probs, values, rewards, terminated and truncated flags of every step and env"}

    def run(self, v):
        T, E, A = self.T, self.E, self.A
        ids = [f"ag_{i}" for i in range(A)]
        per = lambda name, shp, kind="real": [{a: v.array(f"{name}{t}_{a}", shp, kind) for a in ids} for t in range(T)]
        OBS = [{a: v.array(f"o{t}_{a}", (E, 1)) for a in ids} for t in range(T + 1)]
        ACT, LP, VAL, REW = per("a", (E,)), per("lp", (E,)), per("v", (E,)), per("r", (E,))
        TERM, TRUNC = per("term", (E,), "bool"), per("trunc", (E,), "bool")
        cap, seen_obs, seen_act = {}, [], []

        class Env:
            num_envs = E

            def reset(self, *a, **k):
                return OBS[0], {}

            def step(self, action):
                t = len(seen_act)
                seen_act.append(action)
                return OBS[t + 1], REW[t], TERM[t], TRUNC[t], {}

        class Agent:
            steps = [0]
            learn_step = T * E
            agent_ids = ids
            shared_agent_ids = ["ag"]
            action_space = {a: spaces.Discrete(2) for a in ids}
            actors = []
            scores = []
            fitness = []

            def set_training_mode(self, m):
                pass

            def get_homo_id(self, a):
                return "ag"

            def get_action(self, obs, infos=None):
                t = len(seen_obs)
                seen_obs.append(obs)
                return ACT[t], LP[t], {a: v.array(f"ent{t}_{a}", (E,)) for a in ids}, VAL[t]

            def learn(self, experiences):
                cap["exp"] = experiences
                raise Capture()

        patches = [(tmop_mod, "trange", lambda *a, **k: _Bar()), (tmop_mod, "print", lambda *a, **k: None)]
        if v.mode != "real":
            from symx.shim import ShimFloat
            patches += [(tmop_mod, "np", ShimNumpy({"zeros": _np_zeros_obj})), (tmop_mod, "float", ShimFloat)]
        with patched(*patches):
            try:
                tmop_mod.train_multi_agent_on_policy(Env(), "stub-env", "IPPO", [Agent()], sum_scores=True, max_steps=T * E,
                                                     evo_steps=T * E, verbose=False)
            except Capture:
                pass
        if "exp" not in cap:
            raise HarnessError("agent.learn was not reached")
        st, ac, lp, rw, dn, va, ns, nd = cap["exp"]
        obs = [Ob("rollout-length", all(len(x[a]) == T for x in (st, ac, lp, rw, dn, va) for a in ids))]
        for a in ids:
            for t in range(T):
                for e in range(E):
                    obs.append(Ob(f"{a}t{t}e{e}/policy-acts-on-current-observation", all_eq(seen_obs[t][a][e], OBS[t][a][e])))
                    obs.append(Ob(f"{a}t{t}e{e}/stored-obs-action-logp-value-reward-belong-to-this-agent-and-step",
                                  conj(all_eq(st[a][t][e], OBS[t][a][e]), eq(val(ac[a][t], e), val(ACT[t][a], e)),
                                       eq(val(lp[a][t], e), val(LP[t][a], e)), eq(val(va[a][t], e), val(VAL[t][a], e)),
                                       eq(val(rw[a][t], e), val(REW[t][a], e)), eq(val(seen_act[t][a], e), val(ACT[t][a], e)))))
                    ended = either(val(TERM[t][a], e), val(TRUNC[t][a], e))
                    nxt = val(dn[a][t + 1], e) if t + 1 < T else val(nd[a], e)
                    obs.append(Ob(f"{a}t{t}e{e}/episode-end-(terminated-or-truncated)-is-this-agent's-next-done-flag", eq(nxt != 0, ended),
                                  site="train_multi_agent_on_policy/done-flags"))
            for e in range(E):
                obs.append(Ob(f"{a}e{e}/bootstrap-observation-is-the-last-next-observation", all_eq(ns[a][e], OBS[T][a][e])))
        return obs


class Minibatch(Case):
    """get_experiences_samples: minibatch row k of EVERY experience (tensor, dict, tuple) is row idx[k] of that experience"""
    functions = (au.get_experiences_samples,)
    site = "get_experiences_samples"

    def __init__(self, n, k):
        self.n, self.k = n, k
        self.name = f"minibatch-rows{n}-pick{k}"
        self.bounds = {"rows": n, "minibatch": k, "symbolic": "all row contents, the (pairwise distinct) indices drawn"}

    def run(self, v):
        n, k = self.n, self.k
        st = {"k0": v.tensor("s0", (n, 2)), "k1": v.tensor("s1", (n, 1))}
        tp = (v.tensor("t0", (n, 1)), v.tensor("t1", (n, 2)))
        cols = [v.tensor(f"c{j}", (n,)) for j in range(3)]
        idx = v.array("idx", (k,), "int")
        for i in range(k):
            v.assume(conj(idx[i] >= 0, idx[i] < n))
            for j in range(i):
                v.assume(neg(eq(idx[i], idx[j])))
        if v.mode == "real":
            idx = idx.astype(np.int64)
        out = au.get_experiences_samples(idx, st, tp, *cols)
        obs = [Ob("one-output-per-experience", len(out) == 5 and isinstance(out[0], dict) and isinstance(out[1], tuple))]

        def pick(t, r):
            rows = [elems(t[i]) for i in range(n)]
            cur = rows[0]
            for i in range(1, n):
                cur = [ite(eq(idx[r], i), a, b) if isinstance(idx[r], Sym) else (a if idx[r] == i else b) for a, b in zip(rows[i], cur)]
            return cur
        from symx.core import Sym
        for r in range(k):
            parts = [(out[0]["k0"], st["k0"]), (out[0]["k1"], st["k1"]), (out[1][0], tp[0]), (out[1][1], tp[1])] + [(out[2 + j], cols[j]) for j in range(3)]
            obs.append(Ob(f"minibatch-row{r}-is-row-idx[{r}]-of-every-experience", conj(*[all_eq(elems(o[r]), pick(t, r)) for o, t in parts])))
        return obs


def cases(tier):
    cs = [Minibatch(3, 2), Minibatch(4, 4), PPOGae(3, 2), PPOGae(2, 1), PPOGae(3, 1, vectorized=False), PPOGae(1, 2), PPOGae(2, 1, int_rewards=True),
          IPPOGae(2, 2, 2), IPPOGae(2, 2, 1), IPPOGae(1, 2, 2), IPPOGae(2, 1, 2),
          IPPOGae(2, 1, 2, ids=["ag_b", "ag_a"]), IPPOGae(1, 2, 3, ids=["ag_2", "ag_10", "ag_1"]), IPPOGae(2, 2, 2, obs="tuple"), IPPOGae(2, 2, 2, obs="dict"), PPOGae(2, 2, obs="tuple"), PPOGae(2, 2, obs="dict"),
          PPOCollect(2, 2), PPOCollect(3, 1), IPPOCollect(2, 1, 2), IPPOCollect(1, 2, 2)]
    if tier == "thorough":
        cs += [PPOGae(5, 3), PPOGae(4, 2, OD=2), PPOGae(5, 1, vectorized=False)]
    return cs
