"""C11 — prioritised replay: stored indices only, max priority for new items, P(i) ∝ p_i^alpha, weights in (0,1],
running sum/min agree with a direct computation.

Real code executed: SegmentTree.__setitem__/operate/_operate_helper/__getitem__, SumSegmentTree.sum/retrieve,
MinSegmentTree.min, PrioritizedReplayBuffer.add/_update_priority/update_priorities/_sample_proportional/
_calculate_weights/sample — each from an ARBITRARY state satisfying the representation invariant (inductive step).
`x ** a` with symbolic exponent is an uninterpreted function with positivity / monotonicity axioms.
"""
from __future__ import annotations

from fractions import Fraction

import torch
from tensordict import TensorDict

from .common import *   # noqa: F401,F403
from .common import Case, Ob, require, val, elems, eq, le, lt, ge, gt, conj, disj, neg, all_eq, HarnessError, patched, ShimTorch, smin, smax
from symx.core import ite, Sym, sym_pow
from symx import core

import agilerl.components.replay_buffer as rb_mod
from agilerl.components.replay_buffer import PrioritizedReplayBuffer, ReplayBuffer
from agilerl.components.segment_tree import SegmentTree, SumSegmentTree, MinSegmentTree

PROPERTY = "C11"
INF = float("inf")


def cint(v, x):
    """harness-level concretisation of a symbolic size/index (forks in sym mode)"""
    return x.__index__() if isinstance(x, Sym) else int(x)


def mpow(b, e):
    return sym_pow(b, e) if (isinstance(b, Sym) or isinstance(e, Sym)) else float(b) ** float(e)


def nofork_min(v, tree):
    """builtin `min` forks on every comparison of proxies; when (and only when) the tree's operation IS the builtin
    min, use the same function in its non-forking if-then-else form (sym modes only)."""
    if v.mode != "real" and tree.operation is min:
        tree.operation = emin


def build_trees(buf, leaves, size):
    """put the trees of `buf` into the state 'leaves[0:size] live' satisfying the invariant"""
    st, mt = buf.sum_tree, buf.min_tree
    cap = st.capacity
    for i in range(cap):
        live = i < size
        st.tree[cap + i] = leaves[i] if live else 0.0
        mt.tree[cap + i] = leaves[i] if live else INF
    for i in range(cap - 1, 0, -1):
        st.tree[i] = st.tree[2 * i] + st.tree[2 * i + 1]
        mt.tree[i] = emin(mt.tree[2 * i], mt.tree[2 * i + 1])


def emin(a, b):
    if isinstance(a, float) and a == INF:
        return b
    if isinstance(b, float) and b == INF:
        return a
    return smin(a, b)


def tree_consistent(tree, op):
    cap = tree.capacity
    cs = []
    for i in range(1, cap):
        cs.append(xeq(tree.tree[i], op(tree.tree[2 * i], tree.tree[2 * i + 1])))
    return conj(*cs)


def xeq(a, b):
    ai = isinstance(a, float) and a == INF
    bi = isinstance(b, float) and b == INF
    if ai or bi:
        return ai and bi
    return eq(a, b)


def direct_sum(xs):
    r = 0
    for x in xs:
        r = r + x
    return r


def direct_min(xs):
    r = INF
    for x in xs:
        r = emin(r, x)
    return r


class SegTree(Case):
    """__setitem__ from an arbitrary consistent tree keeps it consistent; operate/sum/min over any range agree
    with a direct computation."""
    functions = (SegmentTree.__setitem__, SegmentTree.operate, SegmentTree._operate_helper, SegmentTree.__getitem__,
                 SumSegmentTree.sum, MinSegmentTree.min)
    site = "SegmentTree"

    def __init__(self, cap, kind):
        self.cap, self.kind = cap, kind
        self.name = f"segtree-{kind}-cap{cap}"
        self.bounds = {"tree_capacity": cap, "symbolic": "every leaf, the index written, the value written, the query range"}

    def run(self, v):
        cap = self.cap
        tree = SumSegmentTree(cap) if self.kind == "sum" else MinSegmentTree(cap)
        require(tree, "tree", "capacity", "operation")
        nofork_min(v, tree)
        op = (lambda a, b: a + b) if self.kind == "sum" else emin
        leaves = [v.real(f"leaf{i}") for i in range(cap)]
        for i in range(cap):
            tree.tree[cap + i] = leaves[i]
        for i in range(cap - 1, 0, -1):
            tree.tree[i] = op(tree.tree[2 * i], tree.tree[2 * i + 1])
        idx = v.int("idx")
        v.assume(conj(idx >= 0, idx < cap))
        x = v.real("x")
        tree[idx] = x
        obs = [Ob("consistent-after-set", tree_consistent(tree, op))]
        for i in range(cap):
            obs.append(Ob(f"leaf{i}-after-set", eq(tree[i], ite(eq(idx, i), x, leaves[i]))))
        new = [ite(eq(idx, i), x, leaves[i]) for i in range(cap)]
        a, b = v.int("start"), v.int("end")
        v.assume(conj(a >= 0, a < b, b <= cap))
        ai, bi = cint(v, a), cint(v, b)
        got = tree.sum(ai, bi) if self.kind == "sum" else tree.min(ai, bi)
        direct = direct_sum(new[ai:bi]) if self.kind == "sum" else direct_min(new[ai:bi])
        obs.append(Ob("range-query-agrees-with-direct-computation", eq(got, direct)))
        whole = tree.sum() if self.kind == "sum" else tree.min()
        obs.append(Ob("total-agrees-with-direct-computation", eq(whole, direct_sum(new) if self.kind == "sum" else direct_min(new))))
        obs.append(Ob("twin/total-ignores-last-leaf", eq(whole, direct_sum(new[:-1]) if self.kind == "sum" else direct_min(new[:-1])), expect="sat"))
        return obs


def storage_of(v, N):
    return TensorDict({"obs": v.tensor("st_obs", (N, 1)), "reward": v.tensor("st_reward", (N, 1))}, batch_size=[N])


class PerState:
    """arbitrary PrioritizedReplayBuffer state under the representation invariant"""

    def __init__(self, v, N, alpha_kind, with_storage=True):
        self.alpha = 1 if alpha_kind == "one" else v.real("alpha")
        if alpha_kind != "one":
            v.assume(conj(self.alpha >= 0, self.alpha <= 1))
        buf = PrioritizedReplayBuffer(N, alpha=self.alpha)
        require(buf, "sum_tree", "min_tree", "tree_ptr", "max_priority", "_size", "_cursor", "max_size")
        cap = buf.sum_tree.capacity
        c = v.int("count")
        v.assume(c >= 1)
        size = ite(c >= N, N, c)
        self.size = cint(v, size)
        self.cursor = cint(v, c % N)
        self.leaves = [v.real(f"leaf{i}") for i in range(cap)]
        for i in range(self.size):
            v.assume(self.leaves[i] > 0)
        nofork_min(v, buf.min_tree)
        build_trees(buf, self.leaves, self.size)
        self.maxp = v.real("max_priority")
        v.assume(self.maxp >= 1)
        buf.max_priority = self.maxp
        buf._size = self.size
        buf._cursor = self.cursor
        buf.tree_ptr = self.cursor
        buf.counter = c
        if with_storage:
            self.storage = storage_of(v, N)
            buf._storage = self.storage
            buf.initialized = True
        self.buf, self.cap, self.N, self.count = buf, cap, N, c

    def live_leaves(self):
        b = self.buf
        return [b.sum_tree[i] for i in range(self.cap)], [b.min_tree[i] for i in range(self.cap)]


INV_TEXT = ("pre-state satisfies the representation invariant: internal nodes = op(children); leaves of live slots > 0, "
            "unused leaves 0 (sum) / +inf (min); size = min(N,count); tree_ptr = cursor = count mod N; max_priority >= 1")


class PerAdd(Case):
    functions = (PrioritizedReplayBuffer.add, PrioritizedReplayBuffer._update_priority, ReplayBuffer.add,
                 SegmentTree.__setitem__)
    assumptions = (INV_TEXT,)
    site = "PrioritizedReplayBuffer.add"

    def __init__(self, N, n, alpha_kind="sym"):
        self.N, self.n, self.ak = N, n, alpha_kind
        self.name = f"per-add-N{N}-n{n}-alpha{alpha_kind}"
        self.bounds = {"capacity": N, "rows_added": n, "alpha": alpha_kind,
                       "symbolic": "count (cursor/size), every leaf, max_priority, alpha, contents"}

    def run(self, v):
        N, n = self.N, self.n
        s = PerState(v, N, self.ak)
        buf = s.buf
        new = TensorDict({"obs": v.tensor("new_obs", (n, 1)), "reward": v.tensor("new_reward", (n, 1))}, batch_size=[n])
        buf.add(new)
        exp_leaf = mpow(s.maxp, s.alpha)
        written = [(s.cursor + k) % N for k in range(n)]
        obs = []
        sl, ml = s.live_leaves()
        newsize = min(N, s.size + n)
        for i in range(s.cap):
            if i in written:
                obs.append(Ob(f"leaf{i}/new-item-gets-max-priority", conj(eq(sl[i], exp_leaf), eq(ml[i], exp_leaf))))
            else:
                old_s = s.leaves[i] if i < s.size else 0.0
                old_m = s.leaves[i] if i < s.size else INF
                obs.append(Ob(f"leaf{i}/untouched", conj(xeq(sl[i], old_s), xeq(ml[i], old_m))))
        obs.append(Ob("tree_ptr-follows-cursor", conj(eq(buf.tree_ptr, (s.cursor + n) % N), eq(buf.tree_ptr, buf._cursor))))
        obs.append(Ob("len", len(buf) == newsize))
        obs.append(Ob("sum-tree-consistent", tree_consistent(buf.sum_tree, lambda a, b: a + b)))
        obs.append(Ob("min-tree-consistent", tree_consistent(buf.min_tree, emin)))
        obs.append(Ob("total-agrees-with-direct", eq(buf.sum_tree.sum(), direct_sum(sl))))
        obs.append(Ob("min-agrees-with-direct", xeq(buf.min_tree.min(), direct_min(ml))))
        obs.append(Ob("max_priority-unchanged-by-add", eq(buf.max_priority, s.maxp)))
        # live slots are exactly the slots with a positive sum-leaf / finite min-leaf
        for i in range(N):
            if i < newsize:
                obs.append(Ob(f"slot{i}/live-has-priority", conj(gt(sl[i], 0), neg(xeq(ml[i], INF)))))
        return obs


class PerUpdate(Case):
    functions = (PrioritizedReplayBuffer.update_priorities, PrioritizedReplayBuffer._update_priority, SegmentTree.__setitem__)
    assumptions = (INV_TEXT, "indices passed to update_priorities are indices of stored transitions (they come from sample())")
    site = "PrioritizedReplayBuffer.update_priorities"

    def __init__(self, N, k, alpha_kind="sym"):
        self.N, self.k, self.ak = N, k, alpha_kind
        self.name = f"per-update-N{N}-k{k}-alpha{alpha_kind}"
        self.bounds = {"capacity": N, "updates": k, "alpha": alpha_kind,
                       "symbolic": "count, leaves, max_priority, alpha, the indices (repeats allowed), the priorities (any real, also < 1e-5 and <= 0)"}

    def run(self, v):
        N, k = self.N, self.k
        s = PerState(v, N, self.ak, with_storage=False)
        buf = s.buf
        idxs = v.tensor("uidx", (k,), "int")
        prios = v.tensor("uprio", (k,))
        ii = [val(idxs, j) for j in range(k)]
        pp = [val(prios, j) for j in range(k)]
        for x in ii:
            v.assume(conj(x >= 0, x < s.size))
        # wishes for replay models (x**a is uninterpreted for the solver: a counterexample only reproduces with the real power
        # where the 1e-5 floor on the priority matters and alpha is not 1)
        for p_ in pp:
            v.prefer(conj(p_ >= 0, p_ < Fraction(1, 10 ** 6)))
        if isinstance(getattr(buf, "alpha", None), Sym):
            v.prefer(neg(eq(buf.alpha, 1)))
        buf.update_priorities(idxs, prios)
        clipped = [smax(p, 1e-5) for p in pp]
        sl, ml = s.live_leaves()
        obs = []
        for i in range(s.cap):
            old_s = s.leaves[i] if i < s.size else 0.0
            old_m = s.leaves[i] if i < s.size else INF
            if i >= s.size:
                obs.append(Ob(f"leaf{i}/unused-untouched", conj(xeq(sl[i], old_s), xeq(ml[i], old_m))))
                continue
            exp = old_s
            for j in range(k):       # last write wins
                exp = ite(eq(ii[j], i), mpow(clipped[j], s.alpha), exp)
            obs.append(Ob(f"leaf{i}/priority^alpha-of-last-update", conj(eq(sl[i], exp), eq(ml[i], exp))))
        obs.append(Ob("max_priority-is-running-max", eq(buf.max_priority, smax(s.maxp, *clipped))))
        obs.append(Ob("sum-tree-consistent", tree_consistent(buf.sum_tree, lambda a, b: a + b)))
        obs.append(Ob("min-tree-consistent", tree_consistent(buf.min_tree, emin)))
        obs.append(Ob("total-agrees-with-direct", eq(buf.sum_tree.sum(), direct_sum(sl))))
        obs.append(Ob("min-agrees-with-direct", xeq(buf.min_tree.min(), direct_min(ml))))
        for i in range(s.size):
            obs.append(Ob(f"slot{i}/still-positive", gt(sl[i], 0)))
        obs.append(Ob("tree_ptr-untouched", eq(buf.tree_ptr, s.cursor)))
        return obs


class PerSample(Case):
    functions = (PrioritizedReplayBuffer.sample, PrioritizedReplayBuffer._sample_proportional,
                 PrioritizedReplayBuffer._calculate_weights, SumSegmentTree.retrieve, SumSegmentTree.sum, MinSegmentTree.min,
                 SegmentTree.__getitem__)
    stubs = ("builtin min as MinSegmentTree.operation -> the same function as a non-forking if-then-else (only if the operation is the builtin min)",
             "torch.rand(1) in agilerl.components.replay_buffer -> an arbitrary real u with 0 <= u < 1 (the documented contract)",
             "torch.zeros in agilerl.components.replay_buffer -> SymTensor zeros (sym modes)")
    assumptions = (INV_TEXT, "0 <= beta <= 1")
    site = "PrioritizedReplayBuffer.sample"

    def __init__(self, N, B, alpha_kind="sym", via_sampler=False):
        self.N, self.B, self.ak, self.via_sampler = N, B, alpha_kind, via_sampler
        self.name = f"per-sample-N{N}-B{B}" + ("-through-Sampler" if via_sampler else "")
        self.bounds = {"capacity": N, "batch": B, "symbolic": "count (size), every leaf (priority^alpha), the uniform variates, beta, contents"}

    def run(self, v):
        N, B = self.N, self.B
        s = PerState(v, N, "one")
        buf = s.buf
        beta = v.real("beta")
        v.assume(conj(beta >= 0, beta <= 1))
        us = []

        class R:
            def __init__(self, u):
                self.u = u

            def item(self):
                return self.u

        def rand(*a, **k):
            u = v.real("u")
            v.assume(conj(u >= 0, u < 1))
            us.append(u)
            return R(u)

        ov = {"rand": rand}
        if v.mode != "real":
            ov["zeros"] = lambda *size, dtype=torch.float32, device=None: ShimTorch.symzeros(*size, dtype=dtype)
        with patched((rb_mod, "torch", ShimTorch(ov))):
            if self.via_sampler:
                from agilerl.components.sampler import Sampler      # the path train_off_policy takes
                out = Sampler(memory=buf).sample(B, beta)
            else:
                out = buf.sample(B, beta)
        obs = []
        live = s.leaves[: s.size]
        total = direct_sum(live)
        mn = direct_min(live)
        seg = total / B
        for k in range(B):
            idx = val(out["idxs"], k, 0)
            idx = cint(v, idx)
            obs.append(Ob(f"s{k}/index-is-stored", 0 <= idx < s.size))
            if not (0 <= idx < s.size):
                continue
            # proportional sampling: the query mass m = seg*k + u*seg falls into leaf idx's own interval
            m = us[k] * (seg * (k + 1) - seg * k) + seg * k
            prefix = direct_sum(live[:idx])
            obs.append(Ob(f"s{k}/mass-falls-in-own-interval", conj(le(prefix, m), lt(m, prefix + live[idx])), obs=[m]))
            # importance weight
            w = val(out["weights"], k, 0)
            wexp = mpow(live[idx] / total * s.size, -beta) / mpow(mn / total * s.size, -beta)
            obs.append(Ob(f"s{k}/weight-formula", eq(w, wexp), obs=[w]))
            obs.append(Ob(f"s{k}/weight-in-(0,1]", conj(gt(w, 0), le(w, 1))))
            obs.append(Ob(f"s{k}/row-is-stored-row", conj(all_eq(out["obs"][k], s.storage["obs"][idx]), all_eq(out["reward"][k], s.storage["reward"][idx]))))
        obs.append(Ob("twin/weights-normalised-by-max-priority", eq(val(out["weights"], 0, 0), mpow(live[0] / total * s.size, -beta)), expect="sat"))
        return obs


def cases(tier):
    cs = [SegTree(4, "sum"), SegTree(4, "min"), SegTree(2, "sum"), SegTree(8, "sum"),
          PerAdd(3, 1), PerAdd(3, 2), PerAdd(4, 3, "one"), PerAdd(5, 2),
          PerUpdate(3, 2), PerUpdate(4, 2, "one"), PerUpdate(2, 3),
          PerSample(3, 2), PerSample(4, 2), PerSample(2, 1), PerSample(3, 1, via_sampler=True)]
    if tier == "thorough":
        cs += [SegTree(8, "min"), SegTree(16, "sum"), PerAdd(6, 4), PerAdd(8, 3), PerAdd(7, 7, "one"),
               PerUpdate(4, 3), PerUpdate(6, 2), PerSample(5, 1)]
    return cs


# --------------------------------------------------------------------------- floating-point mode (IEEE doubles)

from symx.fp import new_fp, finite_in, feq, SFloat


class SegTreeFP(Case):
    """SumSegmentTree.__setitem__ on IEEE-754 doubles (z3 FloatingPoint, round-nearest-even): after ANY sequence position
    (one update from a tree that is consistent in floating point) every internal node is again the ROUNDED sum of its two
    children, i.e. the running total is the pairwise summation of the stored priorities — a direct computation over them —
    and not an accumulation of deltas."""
    functions = (SegmentTree.__setitem__, SumSegmentTree.sum)
    assumptions = ("leaves and the written value are finite doubles in [0, 1e150] (no overflow, no NaN)",
                   "pre-state consistent in floating point: every internal node = fl(left + right)")
    outside = ("retrieve() on doubles (a query mass within one ulp of the total can end on an empty leaf; unreachable for float32 variates)",)
    site = "SumSegmentTree.__setitem__/floating-point"

    def __init__(self, cap, updates=1):
        self.cap, self.updates = cap, updates
        self.name = f"segtree-sum-fp-cap{cap}-updates{updates}"
        self.bounds = {"tree_capacity": cap, "consecutive_updates": updates, "number_domain": "IEEE-754 binary64, round-nearest-even",
                       "symbolic": "every leaf, the index written, the value written"}

    def run(self, v):
        cap = self.cap
        tree = SumSegmentTree(cap)
        require(tree, "tree", "capacity", "operation")
        leaves = [new_fp(v, f"leaf{i}") for i in range(cap)]
        for x in leaves:
            v.assume(finite_in(x, 0.0, 1e150))
        for i in range(cap):
            tree.tree[cap + i] = leaves[i]
        for i in range(cap - 1, 0, -1):
            tree.tree[i] = tree.tree[2 * i] + tree.tree[2 * i + 1]
        cur = list(leaves)
        for u in range(self.updates):
            idx = v.int(f"idx{u}")
            v.assume(conj(idx >= 0, idx < cap))
            x = new_fp(v, f"x{u}")
            v.assume(finite_in(x, 0.0, 1e150))
            i = cint(v, idx)
            tree[i] = x
            cur[i] = x
        obs = []
        for i in range(1, cap):
            obs.append(Ob(f"node{i}-is-the-rounded-sum-of-its-children", feq(tree.tree[i], tree.tree[2 * i] + tree.tree[2 * i + 1])))
        for i in range(cap):
            obs.append(Ob(f"leaf{i}-holds-the-value-last-written", feq(tree.tree[cap + i], cur[i])))
        # pairwise summation of the stored priorities, computed directly
        level = list(cur)
        while len(level) > 1:
            level = [level[k] + level[k + 1] for k in range(0, len(level), 2)]
        obs.append(Ob("total-is-the-pairwise-sum-of-the-stored-priorities", feq(tree.sum(), level[0])))
        if cap <= 2:      # a floating-point witness for the twin is only cheap for the smallest tree
            obs.append(Ob("twin/total-is-unchanged-by-the-update", feq(tree.sum(), _pairwise(leaves)), expect="sat"))
        return obs


def _pairwise(xs):
    level = list(xs)
    while len(level) > 1:
        level = [level[k] + level[k + 1] for k in range(0, len(level), 2)]
    return level[0]


_cases_real = cases


def cases(tier):   # noqa: F811
    cs = _cases_real(tier)
    cs += [SegTreeFP(2), SegTreeFP(4), SegTreeFP(2, updates=2)]
    if tier == "thorough":
        cs += [SegTreeFP(4, updates=2), SegTreeFP(8)]
    return cs
