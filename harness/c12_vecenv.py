"""C12 — the vectorised multi-agent environment equals N independent environments.

Real code executed IN-PROCESS (no multiprocessing): the command loop of _async_worker driven by a scripted pipe and a
scripted sub-environment; process_transition, get_placeholder_value, write_to_shared_memory, create_shared_memory
(ctypes arrays), Observations.__getitem__; PettingZooVecEnv.step + AsyncPettingZooVecEnv.step_async/step_wait on an
instance wired to in-memory pipes; PettingZooAutoResetParallelWrapper.step.
Symbolic: per agent and step the terminated / truncated flags, whether the agent is present in the returned dicts, the
rewards, the actions.  Observation contents are concrete pairwise-distinct labels (they live in typed shared memory).
"""
from __future__ import annotations

import multiprocessing as mp
from collections import OrderedDict

import numpy as np
from gymnasium import spaces

from .common import *   # noqa: F401,F403
from .common import Case, Ob, require, val, elems, eq, le, lt, ge, gt, conj, disj, neg, all_eq, HarnessError, patched
from symx.core import ite, Sym, lor

import agilerl.vector.pz_async_vec_env as av
import agilerl.vector.pz_vec_env as pv
from agilerl.vector.pz_async_vec_env import (AsyncPettingZooVecEnv, AsyncState, Observations, _async_worker, create_shared_memory,
                                             get_placeholder_value, process_transition, write_to_shared_memory)
from agilerl.vector.pz_vec_env import PettingZooVecEnv
from agilerl.wrappers.pettingzoo_wrappers import PettingZooAutoResetParallelWrapper

PROPERTY = "C12"

KINDS = {
    "vector": lambda: spaces.Box(-1000, 1000, (2,), np.float32),
    "image": lambda: spaces.Box(0, 255, (1, 2, 2), np.uint8),
    "dict": lambda: spaces.Dict({"a": spaces.Box(-1000, 1000, (2,), np.float32), "b": spaces.Box(0, 1000, (1,), np.int64)}),
    "tuple": lambda: spaces.Tuple((spaces.Box(-1000, 1000, (2,), np.float32), spaces.Box(0, 255, (1, 2), np.uint8))),
}


def obs_of(space, label):
    """a concrete observation of `space` whose every entry encodes `label` (distinct labels => distinct observations)"""
    if isinstance(space, spaces.Dict):
        return OrderedDict((k, obs_of(s, label + 3 * j)) for j, (k, s) in enumerate(space.spaces.items()))
    if isinstance(space, spaces.Tuple):
        return tuple(obs_of(s, label + 3 * j) for j, s in enumerate(space.spaces))
    n = int(np.prod(space.shape))
    return (np.arange(n).reshape(space.shape) + label).astype(space.dtype)


def same_obs(space, got, want):
    if isinstance(space, spaces.Dict):
        return all(same_obs(s, got[k], want[k]) for k, s in space.spaces.items())
    if isinstance(space, spaces.Tuple):
        return all(same_obs(s, got[j], want[j]) for j, s in enumerate(space.spaces))
    return bool(np.array_equal(np.asarray(got).reshape(space.shape), np.asarray(want).reshape(space.shape)))


def placeholder_obs(space):
    if isinstance(space, spaces.Dict):
        return OrderedDict((k, placeholder_obs(s)) for k, s in space.spaces.items())
    if isinstance(space, spaces.Tuple):
        return tuple(placeholder_obs(s) for s in space.spaces)
    return (-np.ones(space.shape)).astype(space.dtype)


def slot(obs_view, space, i):
    """what Observations hands out for env i"""
    if isinstance(space, spaces.Dict):
        return OrderedDict((k, np.array(obs_view[k][i])) for k in space.spaces)
    if isinstance(space, spaces.Tuple):
        return tuple(np.array(o[i]) for o in obs_view)
    return np.array(obs_view[i])


class ScriptEnv:
    """scripted PettingZoo parallel env: step t returns label-encoded observations and the harness' symbolic flags"""

    def __init__(self, v, tag, agents, space_fn, T, absent_ok):
        self.v, self.tag, self.possible_agents, self.T = v, tag, list(agents), T
        self.space = space_fn()
        self.metadata, self.render_mode = {}, None
        self.resets, self.steps, self.actions, self.closed = 0, 0, [], False
        self.agents = list(agents)
        self.present_log = []
        self.flags = []
        for t in range(T):
            row = {}
            for a in agents:
                present = v.bool(f"{tag}present{t}_{a}") if absent_ok else True
                row[a] = (v.bool(f"{tag}term{t}_{a}"), v.bool(f"{tag}trunc{t}_{a}"), v.real(f"{tag}rew{t}_{a}"), present)
            if absent_ok:
                v.assume(disj(*[row[a][3] for a in agents]), "at least one agent is present in the returned dicts")
                if self.flags:
                    for a in agents:     # an agent that left stays away until the next reset (PettingZoo semantics)
                        v.assume(disj(neg(row[a][3]), self.flags[-1][a][3]), "an agent that left an episode stays away until the reset")
            self.flags.append(row)

    def observation_space(self, agent):
        return self.space

    def action_space(self, agent):
        return spaces.Discrete(5)

    def reset_label(self, k):
        return 500 + 20 * k

    def step_label(self, t, agent):
        return 10 + 40 * t + 7 * self.possible_agents.index(agent)

    def reset(self, seed=None, options=None):
        self.resets += 1
        self.reset_args = getattr(self, "reset_args", []) + [(seed, options)]
        self.agents = list(self.possible_agents)
        k = self.resets
        return ({a: obs_of(self.space, self.reset_label(k) + self.possible_agents.index(a)) for a in self.possible_agents},
                {a: {"episode": k} for a in self.possible_agents})

    def step(self, actions):
        t = self.steps
        self.steps += 1
        self.actions.append(actions)
        obs, rew, term, trunc, info = {}, {}, {}, {}, {}
        self.present_log.append({})
        for a in self.possible_agents:
            te, tr, r, present = self.flags[t][a]
            here = present is True or bool(present)        # decided here (forks when symbolic)
            self.present_log[t][a] = here
            if not here and a in self.agents:
                self.agents = [x for x in self.agents if x != a]      # env.agents lists the LIVE agents only
            if here:
                obs[a], rew[a], term[a], trunc[a], info[a] = obs_of(self.space, self.step_label(t, a)), r, te, tr, {"t": t}
        return obs, rew, term, trunc, info

    def close(self):
        self.closed = True


class ScriptPipe:
    def __init__(self, commands, snapshot):
        self.commands, self.sent, self.snapshot = list(commands), [], snapshot

    def recv(self):
        return self.commands.pop(0)

    def send(self, msg):
        self.sent.append((msg, self.snapshot()))

    def close(self):
        pass


class ListQueue(list):
    def put(self, x):
        self.append(x)

    def empty(self):
        return len(self) == 0

    def get(self, *a, **k):
        return self.pop(0)


class WorkerLoop(Case):
    functions = (_async_worker, process_transition, get_placeholder_value, write_to_shared_memory, create_shared_memory, Observations.__getitem__)
    stubs = ("pipe = scripted in-memory command list; sub-environment = scripted env with symbolic flags/rewards; shared memory = real ctypes arrays, no processes",)
    assumptions = ("at least one agent is present in the dicts a sub-environment returns",)
    outside = ("real process scheduling, pickling, shared memory between processes, what a real environment does with its seed",)

    def __init__(self, kind, A, T, E=2, index=1, absent=False, continuous=False):
        self.kind, self.A, self.T, self.E, self.index, self.absent, self.continuous = kind, A, T, E, index, absent, continuous
        self.name = f"worker-{kind}-A{A}-T{T}-env{index}of{E}" + ("-absent" if absent else "") + ("-continuous" if continuous else "")
        self.site = "_async_worker/step"
        self.bounds = {"observation_space": kind, "agents": A, "steps": T, "num_envs": E, "env_index": index, "agents_may_leave": absent,
                       "symbolic": "terminated / truncated flags, rewards" + (", presence of each agent in the returned dicts" if absent else "")}

    def run(self, v):
        agents = [f"ag_{i}" for i in range(self.A)]
        env = ScriptEnv(v, "", agents, KINDS[self.kind], self.T, self.absent)
        space = env.space
        obs_spaces = {a: space for a in agents}
        shm = create_shared_memory(self.E, obs_spaces, mp)
        view = Observations(shm, obs_spaces, self.E)
        # sentinel content in every slot so that "untouched" is observable
        for j in range(self.E):
            write_to_shared_memory(j, {a: obs_of(space, 900 + j) for a in agents}, shm, obs_spaces)

        def snapshot():
            d = {a: [slot(view[a], space, j) for j in range(self.E)] for a in agents}
            d["__resets__"] = env.resets
            return d

        if self.continuous:
            acts = [[np.array([[0.5 * t + k, -1.0 * k]], dtype=np.float32) for k in range(self.A)] for t in range(self.T)]     # (1, 2) rows as sliced from a batch
        else:
            acts = [[t + 1 + k for k in range(self.A)] for t in range(self.T)]
        seed0, opts0 = v.int("seed"), {"k": 1}
        pipe = ScriptPipe([("reset", {"seed": seed0, "options": opts0})] + [("step", a) for a in acts] + [("close", None)], snapshot)
        errors = ListQueue()
        _async_worker(self.index, lambda: env, pipe, ScriptPipe([], snapshot), shm, errors, agents)
        res = [Ob("no-error-reported-by-the-worker", len(errors) == 0 and all(m[1] for m, _ in pipe.sent)),
               Ob("one-reply-per-command", len(pipe.sent) == self.T + 2),
               Ob("the-reset-command's-seed-and-options-reach-the-sub-environment", len(getattr(env, "reset_args", [])) >= 1 and env.reset_args[0][1] is opts0 and
                  (env.reset_args[0][0] is seed0 or bool(eq(env.reset_args[0][0], seed0))), site="_async_worker/reset-arguments")]
        if len(errors) or len(pipe.sent) != self.T + 2:
            return res
        i = self.index
        # reset reply
        (info0, ok0), snap0 = pipe.sent[0]
        res.append(Ob("reset/observation-of-env-i-is-its-first-observation", all(same_obs(space, snap0[a][i], obs_of(space, env.reset_label(1) + k)) for k, a in enumerate(agents))))
        res.append(Ob("reset/other-envs'-slots-untouched", all(same_obs(space, snap0[a][j], obs_of(space, 900 + j)) for a in agents for j in range(self.E) if j != i)))
        for t in range(self.T):
            (payload, ok), snap = pipe.sent[1 + t]
            resets_prev, resets_now = pipe.sent[t][1]["__resets__"], snap["__resets__"]
            rew, term, trunc, info = payload
            present = dict(env.present_log[t])
            # the flags the worker saw: only of agents present in the dicts
            done_each = [lor(env.flags[t][a][0], env.flags[t][a][1]) for a in agents if present[a]]
            all_done = conj(*done_each)
            # on this path the worker either reset or not: decide (fork) to know which snapshot to expect
            was_reset = resets_now > resets_prev
            res.append(Ob(f"step{t}/env-is-reset-iff-every-agent-terminated-or-truncated", eq(all_done, was_reset) if isinstance(all_done, Sym) else bool(all_done) == was_reset,
                          site="_async_worker/reset-condition"))
            for k, a in enumerate(agents):
                here = present[a]
                if here or a in env.actions[t]:
                    res.append(Ob(f"step{t}/{a}/env-got-its-own-action", a in env.actions[t] and bool(np.array_equal(np.asarray(env.actions[t][a]).reshape(-1), np.asarray(acts[t][k]).reshape(-1))),
                                  site="_async_worker/action-routing"))
                if here:
                    res.append(Ob(f"step{t}/{a}/reward-termination-truncation-are-env-i's-own",
                                  conj(a in rew and eq(rew[a], env.flags[t][a][2]), a in term and eq(term[a], env.flags[t][a][0]), a in trunc and eq(trunc[a], env.flags[t][a][1])),
                                  site="_async_worker/step-reply"))
                    want = obs_of(space, env.reset_label(resets_now) + k) if was_reset else obs_of(space, env.step_label(t, a))
                    res.append(Ob(f"step{t}/{a}/observation-is-the-new-episode's-first-after-a-reset-else-the-step's", same_obs(space, snap[a][i], want),
                                  site="_async_worker/observation-after-autoreset" if was_reset else "_async_worker/step-observation"))
                else:
                    ph_ok = a in rew and a in term and a in trunc and eq(rew[a], 0) and term[a] is True and trunc[a] is False
                    res.append(Ob(f"step{t}/{a}/absent-agent-gets-the-documented-placeholders", bool(ph_ok), site="_async_worker/absent-agent-placeholders"))
                    want = obs_of(space, env.reset_label(resets_now) + k) if was_reset else placeholder_obs(space)
                    res.append(Ob(f"step{t}/{a}/absent-agent's-observation-is-the-placeholder-(or-the-new-episode's-first-after-a-reset)", same_obs(space, snap[a][i], want),
                                  site="_async_worker/absent-agent-placeholders"))
            res.append(Ob(f"step{t}/other-envs'-slots-untouched", all(same_obs(space, snap[a][j], obs_of(space, 900 + j)) for a in agents for j in range(self.E) if j != i)))
        res.append(Ob("sub-environment-closed-at-the-end", env.closed))
        return res


class FakePipe:
    def __init__(self, reply):
        self.sent, self.reply = [], reply

    def send(self, x):
        self.sent.append(x)

    def poll(self, timeout=None):
        return True

    def recv(self):
        return self.reply

    def close(self):
        pass


class ParentStep(Case):
    """PettingZooVecEnv.step -> step_async -> step_wait: action transposition and per-env assembly"""
    functions = (PettingZooVecEnv.step, AsyncPettingZooVecEnv.step_async, AsyncPettingZooVecEnv.step_wait, AsyncPettingZooVecEnv._add_info)
    stubs = ("parent pipes = in-memory pipes pre-loaded with each worker's reply; instance created without spawning processes",)
    site = "AsyncPettingZooVecEnv.step"

    def __init__(self, A, E, copy=True, action="discrete"):
        self.A, self.E, self.copy, self.action = A, E, copy, action
        self.name = f"parent-step-A{A}-E{E}-{'copy' if copy else 'nocopy'}" + ("" if action == "discrete" else f"-{action}-actions")
        self.bounds = {"agents": A, "num_envs": E, "copy": copy, "actions": {"discrete": "Discrete(2) indices", "box1": "Box(shape=(1,)) reals", "box2": "Box(shape=(2,)) reals"}[action],
                       "symbolic": "actions, rewards, terminated / truncated flags in the workers' replies, which info keys every sub-environment reports"}

    def run(self, v):
        A, E = self.A, self.E
        agents = [f"ag_{i}" for i in range(A)]
        space = KINDS["vector"]()
        obs_spaces = {a: space for a in agents}
        shm = create_shared_memory(E, obs_spaces, mp)
        for j in range(E):
            write_to_shared_memory(j, {a: obs_of(space, 100 * j + 10 * k) for k, a in enumerate(agents)}, shm, obs_spaces)
        R = {a: [v.real(f"rew_{a}_{j}") for j in range(E)] for a in agents}
        TE = {a: [v.bool(f"term_{a}_{j}") for j in range(E)] for a in agents}
        TR = {a: [v.bool(f"trunc_{a}_{j}") for j in range(E)] for a in agents}
        # infos: every sub-environment reports "t"; whether it also reports "progress" (same agent, same call) is decided per env
        has_prog = [bool(v.bool(f"reports_progress_{j}")) for j in range(E)]
        infos = [{a: dict({"env": j, "t": 10 + j}, **({"progress": 20 + j} if has_prog[j] else {})) for a in agents} for j in range(E)]
        pipes = [FakePipe((({a: R[a][j] for a in agents}, {a: TE[a][j] for a in agents}, {a: TR[a][j] for a in agents}, infos[j]), True))
                 for j in range(E)]
        env = object.__new__(AsyncPettingZooVecEnv)
        env.num_envs, env.agents, env.possible_agents, env.num_agents = E, list(agents), list(agents), A
        env.parent_pipes, env.processes, env.error_queue = pipes, [], ListQueue()
        env.observations = Observations(shm, obs_spaces, E)
        env.copy, env.closed, env._state = self.copy, False, AsyncState.DEFAULT
        if self.action == "discrete":
            ACT = {a: v.array(f"act_{a}", (E,), "int") for a in agents}
            for a in agents:
                for x in ACT[a]:
                    v.assume(conj(x >= 0, x < 2), "discrete actions are valid indices (two actions)")
        else:
            ACT = {a: v.array(f"act_{a}", (E, 1 if self.action == "box1" else 2)) for a in agents}      # continuous actions: any reals
        from symx.shim import ShimInt
        with patched(*([(pv, "int", ShimInt)] if v.mode != "real" else [])):
            obs, rew, term, trunc, info = env.step(ACT)
        res = []
        for j in range(E):
            sent = pipes[j].sent
            ok = len(sent) == 1 and sent[0][0] == "step" and len(sent[0][1]) == A
            res.append(Ob(f"env{j}/receives-one-step-command-with-one-action-per-agent", ok))
            if ok and self.action == "discrete":
                res.append(Ob(f"env{j}/gets-exactly-[actions[a][{j}] for a in agents]", conj(*[eq(sent[0][1][k], ACT[a][j]) for k, a in enumerate(agents)]), site=self.site + "/action-transposition"))
            elif ok:
                conds = []
                for k, a in enumerate(agents):
                    got, want = np.asarray(sent[0][1][k], dtype=object).reshape(-1), np.asarray(ACT[a][j], dtype=object).reshape(-1)
                    conds.append(len(got) == len(want) and conj(*[eq(x, y) for x, y in zip(got, want)]))
                res.append(Ob(f"env{j}/gets-its-own-continuous-actions-unaltered", conj(*conds), site=self.site + "/action-transposition"))
            for k, a in enumerate(agents):
                res.append(Ob(f"env{j}/{a}/reward-termination-truncation-at-position-{j}-are-env-{j}'s",
                              conj(eq(rew[a][j], R[a][j]), eq(term[a][j], TE[a][j]), eq(trunc[a][j], TR[a][j])), site=self.site + "/assembly"))
                res.append(Ob(f"env{j}/{a}/observation-at-position-{j}-is-env-{j}'s", same_obs(space, obs[a][j], obs_of(space, 100 * j + 10 * k)), site=self.site + "/assembly"))
        # vectorised infos: position j holds env j's value where it reported the key, and the mask "_<key>" says exactly where
        for a in agents:
            ia = info.get(a, {}) if isinstance(info, dict) else {}
            for key, reported, val_ in (("t", [True] * E, [10 + j for j in range(E)]), ("progress", has_prog, [20 + j for j in range(E)])):
                if not any(reported):
                    res.append(Ob(f"info/{a}/{key}/absent-when-nobody-reports-it", key not in ia, site=self.site + "/info"))
                    continue
                ok_i = key in ia and ("_" + key) in ia and len(ia[key]) == E and len(ia["_" + key]) == E
                res.append(Ob(f"info/{a}/{key}/vectorised-with-its-mask", ok_i, site=self.site + "/info"))
                if ok_i:
                    res.append(Ob(f"info/{a}/{key}/mask-marks-exactly-the-environments-that-reported-it", all(bool(ia["_" + key][j]) == reported[j] for j in range(E)), site=self.site + "/info"))
                    res.append(Ob(f"info/{a}/{key}/values-at-their-environment's-position", all(ia[key][j] == val_[j] for j in range(E) if reported[j]), site=self.site + "/info"))
        res.append(Ob("state-returns-to-default", env._state == AsyncState.DEFAULT))
        if self.copy:
            write_to_shared_memory(0, {a: obs_of(space, 777) for a in agents}, shm, obs_spaces)
            res.append(Ob("copy-mode/later-writes-do-not-alter-the-batch-handed-out", all(same_obs(space, obs[a][0], obs_of(space, 10 * k)) for k, a in enumerate(agents))))
        return res


class ParentReset(Case):
    """PettingZooVecEnv.reset -> reset_async -> reset_wait: sub-environment i is reset with its own seed (seed + i for an
    integer seed, seed[i] for a list, None for None) and the caller's options; the batch returned is the one the workers wrote"""
    functions = (AsyncPettingZooVecEnv.reset, AsyncPettingZooVecEnv.reset_async, AsyncPettingZooVecEnv.reset_wait)
    stubs = ("parent pipes = in-memory pipes pre-loaded with each worker's reply; instance created without spawning processes", "isinstance(x, int) in agilerl.vector.pz_async_vec_env accepts integer proxies")
    site = "AsyncPettingZooVecEnv.reset"

    def __init__(self, A, E, seed_kind):
        self.A, self.E, self.seed_kind = A, E, seed_kind
        self.name = f"parent-reset-A{A}-E{E}-seed-{seed_kind}"
        self.bounds = {"agents": A, "num_envs": E, "seed": {"int": "one symbolic integer (any value, 0 and negatives included)", "list": "one symbolic integer per sub-environment", "none": "None"}[seed_kind]}

    def run(self, v):
        from symx.shim import ShimInt
        A, E = self.A, self.E
        agents = [f"ag_{i}" for i in range(A)]
        space = KINDS["vector"]()
        obs_spaces = {a: space for a in agents}
        shm = create_shared_memory(E, obs_spaces, mp)
        for j in range(E):
            write_to_shared_memory(j, {a: obs_of(space, 100 * j + 10 * k) for k, a in enumerate(agents)}, shm, obs_spaces)
        pipes = [FakePipe(({a: {"env": j} for a in agents}, True)) for j in range(E)]
        env = object.__new__(AsyncPettingZooVecEnv)
        env.num_envs, env.agents, env.possible_agents, env.num_agents = E, list(agents), list(agents), A
        env.parent_pipes, env.processes, env.error_queue = pipes, [], ListQueue()
        env.observations = Observations(shm, obs_spaces, E)
        env.copy, env.closed, env._state = True, False, AsyncState.DEFAULT
        opts = {"difficulty": 3}
        if self.seed_kind == "int":
            seed = v.int("seed")
            want = [seed + j for j in range(E)]
        elif self.seed_kind == "list":
            seed = [v.int(f"seed{j}") for j in range(E)]
            want = list(seed)
        else:
            seed, want = None, [None] * E
        patches = [(av, "int", ShimInt)] if v.mode != "real" else []
        with patched(*patches):
            obs, info = env.reset(seed=seed, options=opts)
        res = []
        for j in range(E):
            sent = pipes[j].sent
            ok = len(sent) == 1 and sent[0][0] == "reset" and isinstance(sent[0][1], dict) and set(sent[0][1]) == {"seed", "options"}
            res.append(Ob(f"env{j}/receives-one-reset-command", ok))
            if not ok:
                continue
            got = sent[0][1]["seed"]
            if want[j] is None:
                res.append(Ob(f"env{j}/is-reset-without-a-seed", got is None, site=self.site + "/seeds"))
            else:
                res.append(Ob(f"env{j}/is-reset-with-its-own-seed", (got is not None) and eq(got, want[j]), site=self.site + "/seeds"))
            res.append(Ob(f"env{j}/gets-the-caller's-options", sent[0][1]["options"] is opts, site=self.site + "/options"))
            for k, a in enumerate(agents):
                res.append(Ob(f"env{j}/{a}/observation-at-position-{j}-is-env-{j}'s", same_obs(space, obs[a][j], obs_of(space, 100 * j + 10 * k)), site=self.site + "/assembly"))
        res.append(Ob("state-returns-to-default", env._state == AsyncState.DEFAULT))
        return res


class AutoResetWrapper(Case):
    functions = (PettingZooAutoResetParallelWrapper.step,)
    site = "PettingZooAutoResetParallelWrapper.step"

    def __init__(self, A):
        self.A = A
        self.name = f"autoreset-wrapper-A{A}"
        self.bounds = {"agents": A, "symbolic": "terminated and truncated flags of every agent"}

    def run(self, v):
        agents = [f"ag_{i}" for i in range(self.A)]
        env = ScriptEnv(v, "", agents, KINDS["vector"], 1, False)
        w = PettingZooAutoResetParallelWrapper(env)
        w.reset()
        obs, rew, term, trunc, info = w.step({a: 0 for a in agents})
        all_done = conj(*[lor(env.flags[0][a][0], env.flags[0][a][1]) for a in agents])
        was_reset = env.resets == 2
        res = [Ob("episode-restarts-iff-every-agent-terminated-or-truncated", eq(all_done, was_reset) if isinstance(all_done, Sym) else bool(all_done) == was_reset,
                  site="PettingZooAutoResetParallelWrapper.step/reset-condition")]
        for k, a in enumerate(agents):
            want = obs_of(env.space, env.reset_label(2) + k) if was_reset else obs_of(env.space, env.step_label(0, a))
            res.append(Ob(f"{a}/observation-is-the-new-episode's-first-after-a-reset-else-the-step's", same_obs(env.space, obs[a], want)))
            res.append(Ob(f"{a}/reward-and-flags-are-the-step's", conj(eq(rew[a], env.flags[0][a][2]), eq(term[a], env.flags[0][a][0]), eq(trunc[a], env.flags[0][a][1]))))
        return res


def cases(tier):
    cs = [WorkerLoop("vector", 2, 2), WorkerLoop("image", 2, 1, E=3, index=2), WorkerLoop("dict", 2, 1), WorkerLoop("tuple", 1, 2, index=0),
          WorkerLoop("vector", 2, 1, absent=True), WorkerLoop("vector", 2, 1, continuous=True), WorkerLoop("vector", 2, 2, absent=True),
          ParentStep(2, 2), ParentStep(3, 2, copy=False), ParentStep(1, 3), ParentStep(2, 2, action="box1"), ParentStep(1, 2, action="box2"),
          ParentReset(2, 2, "int"), ParentReset(1, 3, "list"), ParentReset(2, 2, "none"),
          AutoResetWrapper(1), AutoResetWrapper(2)]
    if tier == "thorough":
        cs += [WorkerLoop("vector", 3, 2), WorkerLoop("dict", 2, 2, absent=True), WorkerLoop("tuple", 2, 2, E=3, index=1), AutoResetWrapper(3), ParentStep(3, 3)]
    return cs
