"""C10 — n-step returns never cross an episode boundary and stay aligned with 1-step data.

Real code executed: MultiStepReplayBuffer.add / _get_n_step_info, ReplayBuffer.add / _init, fed with real
TensorDicts (SymTensor leaves in sym mode) following the two-buffer protocol of train_off_policy
(`one = n_step_memory.add(t); if one is not None: memory.add(one)`).
"""
from __future__ import annotations

import torch
from tensordict import TensorDict

from .common import *   # noqa: F401,F403
from .common import Case, Ob, require, val, elems, eq, conj, disj, neg, all_eq, HarnessError
from symx.core import ite

from agilerl.components.replay_buffer import MultiStepReplayBuffer, ReplayBuffer

PROPERTY = "C10"


def nstep_oracle(n, E, j, e, gamma, r, d, no, variant="spec"):
    """reference for the transition stored for the window starting at raw step j, environment e.
    r/d: (t, e) -> scalar; no: (t, e) -> list of scalars.  Returns (reward, next_obs list, done)."""
    def stop(i):
        return disj(*[eq(d(j + i, ee), 1) for ee in range(E)])
    rew, nob, dn = r(j, e), list(no(j, e)), d(j, e)
    alive = neg(stop(0)) if variant != "ignore-first-slot" else True
    for i in range(1, n):
        rew = ite(alive, rew + gamma ** i * r(j + i, e), rew)
        nob = [ite(alive, x, y) for x, y in zip(no(j + i, e), nob)]
        dn = ite(alive, d(j + i, e), dn)
        alive = conj(alive, neg(stop(i)))
    return rew, nob, dn


class NStep(Case):
    functions = (MultiStepReplayBuffer.add, MultiStepReplayBuffer._get_n_step_info, ReplayBuffer.add, ReplayBuffer._init)
    stubs = ()
    assumptions = ("done flags are 0/1",)
    outside = ("dict/tuple observations",)
    site = "MultiStepReplayBuffer._get_n_step_info"

    def __init__(self, n, E, extra=1, OD=1, cap=None):
        self.n, self.E, self.extra, self.OD, self.cap = n, E, extra, OD, cap
        self.name = f"nstep-n{n}-E{E}-x{extra}" + (f"-cap{cap}" if cap else "")
        self.bounds = {"n_step": n, "num_envs": E, "adds": n + extra, "obs_dim": OD, "capacity": cap or "no wrap-around",
                       "symbolic": "gamma, every reward, every done flag, obs/action/next_obs labels"}

    def run(self, v):
        n, E, OD = self.n, self.E, self.OD
        W = n + self.extra
        gamma = v.real("gamma")
        cap = self.cap or (W * E + 3)
        nbuf = MultiStepReplayBuffer(cap, n_step=n, gamma=gamma)
        main = ReplayBuffer(cap)
        require(nbuf, "n_step_buffer", "_storage", "_cursor", "_size")
        raw = []
        returned = []
        for t in range(W):
            td = TensorDict({
                "obs": v.tensor(f"o{t}", (E, OD)),
                "action": v.tensor(f"a{t}", (E,)),
                "reward": v.tensor(f"r{t}", (E,)),
                "next_obs": v.tensor(f"no{t}", (E, OD)),
                "done": v.tensor(f"d{t}", (E,), "flag", dtype=torch.float32),
            }, batch_size=[E])
            raw.append(td)
            one = nbuf.add(td)
            returned.append(one)
            if one is not None:
                main.add(one)
        obs = []
        nstored = W - n + 1
        total_rows = nstored * E
        obs.append(Ob("length/n-step", len(nbuf) == min(cap, total_rows)))
        obs.append(Ob("length/1-step", len(main) == min(cap, total_rows)))
        obs.append(Ob("returns-none-until-window-full", all(x is None for x in returned[: n - 1]) and all(x is not None for x in returned[n - 1:])))
        r = lambda t, e: val(raw[t]["reward"], e)
        d = lambda t, e: val(raw[t]["done"], e)
        no = lambda t, e: elems(raw[t]["next_obs"][e])
        st, ms = nbuf.storage, main.storage
        for j in range(nstored):
            for e in range(E):
                srow = j * E + e
                if srow < total_rows - cap:
                    continue            # overwritten by wrap-around: both buffers must have dropped it alike
                row = srow % cap
                tag = f"w{j}e{e}"
                rew, nob, dn = nstep_oracle(n, E, j, e, gamma, r, d, no)
                obs.append(Ob(f"{tag}/starts-from-observed-pair",
                              conj(all_eq(st["obs"][row], raw[j]["obs"][e]), eq(val(st["action"][row]), val(raw[j]["action"], e)))))
                obs.append(Ob(f"{tag}/reward-sum-within-episode", eq(val(st["reward"][row]), rew), obs=[val(st["reward"][row])]))
                obs.append(Ob(f"{tag}/next-obs-of-last-summed-step", all_eq(st["next_obs"][row], nob)))
                obs.append(Ob(f"{tag}/done-of-last-summed-step", eq(val(st["done"][row]), dn)))
                # alignment with the 1-step buffer filled alongside
                obs.append(Ob(f"{tag}/aligned-with-1-step-row",
                              conj(all_eq(ms["obs"][row], st["obs"][row]), eq(val(ms["action"][row]), val(st["action"][row])),
                                   eq(val(ms["reward"][row]), r(j, e)), all_eq(ms["next_obs"][row], no(j, e)), eq(val(ms["done"][row]), d(j, e))),
                              site="MultiStepReplayBuffer.add/1-step-alignment"))
                if j == 0 and e == 0 and n > 1:        # with n = 1 the first slot is the only slot: nothing to ignore
                    rw, _, _ = nstep_oracle(n, E, j, e, gamma, r, d, no, variant="ignore-first-slot")
                    obs.append(Ob("twin/first-slot-done-ignored", eq(val(st["reward"][row]), rw), expect="sat"))
        return obs


def cases(tier):
    cs = [NStep(2, 1), NStep(3, 1), NStep(3, 2, extra=0), NStep(2, 2), NStep(2, 2, extra=2, cap=3), NStep(2, 1, extra=3, cap=2),
          NStep(1, 2, extra=1), NStep(1, 1, extra=2, cap=2), NStep(4, 1, extra=0), NStep(5, 1, extra=0)]
    # where the two aligned batches are consumed: Rainbow's learn() pairs the n-step reward and next observation with the n-step
    # batch's OWN done flag (C18's harness)
    from .c18_rainbow import RainbowLearn
    cs += [RainbowLearn(2, 0, 1, per=False, nstep=True, combined=False)]
    if tier == "thorough":
        cs += [NStep(4, 2), NStep(5, 1, extra=2), NStep(3, 3, extra=1), NStep(6, 1, extra=0), NStep(3, 2, extra=3, cap=5), NStep(2, 3, extra=2, cap=4)]
    return cs
