"""C13 — the vector environment rejects misuse and survives worker faults (parent-side protocol).

Real code executed: AsyncPettingZooVecEnv.reset_async/_wait, step_async/_wait, call_async/_wait, set_attr, close /
close_extras, _poll_pipe_envs, _raise_if_errors, _assert_is_running on an instance created WITHOUT spawning processes:
its parent pipes are in-memory objects whose poll() and the success flag of every reply are SYMBOLIC (the fault
schedule), its processes are recorders.  A worker that fails has put (index, exception type, value, trace) on the error
queue before replying (None, False), as _async_worker does (that side is exercised in C12's worker loop and below).
Bounded sequences of API calls are enumerated; a small reference state machine in the harness states what each call
must do.
"""
from __future__ import annotations

import multiprocessing as mp

import numpy as np

from .common import *   # noqa: F401,F403
from .common import Case, Ob, require, val, elems, eq, le, conj, disj, neg, HarnessError, patched
from symx.core import Sym

import agilerl.vector.pz_async_vec_env as av
from agilerl.vector.pz_async_vec_env import AsyncPettingZooVecEnv, AsyncState, _async_worker
from gymnasium.error import AlreadyPendingCallError, ClosedEnvironmentError, NoAsyncCallError

PROPERTY = "C13"


class WorkerBoom(ValueError):
    pass


class WouldBlock(Exception):
    """raised by the pipe model where a real recv() would never return (recorded in bad_use: the obligation that judges it)"""


class WorkerBoom2(KeyError):
    pass


class Proc:
    def __init__(self, v, i):
        self.v, self.i, self.joined, self.terminated = v, i, False, False
        self.alive = True

    def is_alive(self):
        return self.alive and not self.joined

    def terminate(self):
        self.terminated = True
        self.alive = False

    def join(self, *a):
        self.joined = True


class FaultPipe:
    """parent end of a pipe to worker i: every reply's success flag and every poll() are symbolic"""

    def __init__(self, v, i, queue, log, clock=None, may_be_killed=False):
        self.v, self.i, self.queue, self.log, self.clock = v, i, queue, log, clock
        self.may_be_killed, self.gone = may_be_killed, False
        self.closed = False
        self.sent, self.pending = [], 0
        self.bad_use = []
        self.dead, self.outcome = False, []
        self.ready = {}       # message index -> last known readiness of its reply
        self.blocked = []     # commands whose reply was read before it was known to be there (a blocking recv)

    def send(self, msg):
        if self.closed:
            self.bad_use.append("send-on-closed")
            raise OSError("handle is closed")
        if self.dead:
            # a worker that raised has put its error on the queue, answered (None, False) and left its loop: its end of the pipe
            # is gone (one legal schedule: it is gone before the parent's next command)
            raise BrokenPipeError(f"worker {self.i} has exited")
        self.sent.append(msg)
        self.pending += 1
        if msg[0] != "close" and self.may_be_killed and bool(self.v.bool(f"killed{self.i}")):
            # the worker process is killed while it serves this command: no reply, no error-queue entry, its end of the pipe closes
            self.dead = self.gone = True
            self.outcome.append(None)
            return
        if msg[0] != "close":
            ok = bool(self.v.bool(f"success{self.i}"))
            self.outcome.append(ok)
            if not ok:
                self.dead = True
                exc = WorkerBoom if self.i % 2 == 0 else WorkerBoom2
                self.queue.put((self.i, exc, exc(f"worker {self.i} failed"), "trace"))
        else:
            self.outcome.append(True)

    def poll(self, timeout=None):
        if self.closed:
            self.bad_use.append("poll-on-closed")
            raise OSError("handle is closed")
        k = len(self.sent) - self.pending
        if self.dead or self.pending <= 0:
            r = True if self.dead else False       # a worker that raised has already answered: its reply (or the end of the stream) is there to be read
        else:
            r = bool(self.v.bool(f"poll{self.i}"))
            self.ready[k] = r
        self.log.append(("poll", self.i, r))
        if self.clock is not None and timeout is not None:
            # the poll waits for some time w within its allowance (all of it when nothing arrives); time passes only while waiting
            w = self.v.real(f"wait{self.i}")
            allow = timeout if isinstance(timeout, Sym) else float(timeout)
            self.v.assume(conj(w >= 0, disj(w <= allow, conj(allow < 0, eq(w, 0)))), "a poll waits between 0 and its timeout")
            if not r:
                self.v.assume(disj(eq(w, allow), conj(allow < 0, eq(w, 0))), "a poll that reports nothing has waited its whole timeout")
            self.clock.T = self.clock.T + w
        return r

    def recv(self):
        if self.closed:
            self.bad_use.append("recv-on-closed")
            raise OSError("handle is closed")
        if self.gone or (self.pending <= 0 and self.dead):
            self.pending = 0
            raise EOFError(f"worker {self.i} has exited")
        if self.pending <= 0:
            self.bad_use.append("recv-without-pending-reply (would block forever)")
            if self.may_be_killed:
                raise WouldBlock("the parent waits on a pipe with no reply pending: this would block forever")
            raise HarnessError("the parent waits on a pipe with no reply pending: this would block forever")
        self.pending -= 1
        k = len(self.sent) - self.pending - 1
        cmd = self.sent[k][0]
        if cmd == "close":
            return (None, True)        # the acknowledgement of a close command comes at once
        if not self.dead and not self.ready.get(k, False):
            # nobody has seen this reply arrive yet: it may or may not be there; if it is not, this recv() blocks until it is
            if not bool(self.v.bool(f"arrived{self.i}")):
                self.blocked.append(cmd)
        ok = self.outcome[k]
        self.log.append(("recv", self.i, ok))
        if not ok:
            return (None, False)
        payload = {"reset": {"ag_0": {}}, "step": ({"ag_0": 0.0}, {"ag_0": False}, {"ag_0": False}, {"ag_0": {}}), "_call": f"result{self.i}", "_setattr": None}[cmd]
        return (payload, True)

    def close(self):
        self.closed = True


class Clock:
    """time.perf_counter stand-in: an arbitrary start instant; time advances only while a poll waits"""

    def __init__(self, v):
        self.T = v.real("t0")
        v.assume(self.T >= 0)

    def perf_counter(self):
        return self.T


class ListQueue(list):
    def put(self, x):
        self.append(x)

    def get(self, *a, **k):
        if not self:
            raise HarnessError("error_queue.get() on an empty queue would block forever")
        return self.pop(0)

    def empty(self):
        return not self


class NoObs(dict):
    pass


CALLS = {
    "reset_async": lambda e, t: e.reset_async(),
    "reset_wait": lambda e, t: e.reset_wait(timeout=t),
    "step_async": lambda e, t: e.step_async([[0] for _ in range(e.num_envs)]),
    "step_wait": lambda e, t: e.step_wait(timeout=t),
    "call_async": lambda e, t: e.call_async("foo"),
    "call_wait": lambda e, t: e.call_wait(timeout=t),
    "set_attr": lambda e, t: e.set_attr("x", 1),
    "close": lambda e, t: e.close(),
    "close_timeout": lambda e, t: e.close(timeout=t),
    "close_terminate": lambda e, t: e.close(terminate=True),
}
WAIT_OF = {"reset": AsyncState.WAITING_RESET, "step": AsyncState.WAITING_STEP, "call": AsyncState.WAITING_CALL}


class Protocol(Case):
    functions = (AsyncPettingZooVecEnv.reset_async, AsyncPettingZooVecEnv.reset_wait, AsyncPettingZooVecEnv.step_async, AsyncPettingZooVecEnv.step_wait,
                 AsyncPettingZooVecEnv.call_async, AsyncPettingZooVecEnv.call_wait, AsyncPettingZooVecEnv.set_attr, AsyncPettingZooVecEnv.close_extras,
                 AsyncPettingZooVecEnv._poll_pipe_envs, AsyncPettingZooVecEnv._raise_if_errors, AsyncPettingZooVecEnv._assert_is_running) + ((AsyncPettingZooVecEnv._recv,) if hasattr(AsyncPettingZooVecEnv, "_recv") else ())
    stubs = ("parent pipes = in-memory objects: poll() and the success flag of every reply are symbolic booleans; a failing reply comes with an error-queue entry",
             "processes = recorders (join / terminate / is_alive)", "observations = empty mapping (payloads are not the subject)")
    outside = ("true concurrency, killed processes, wall-clock bounds and OS-level liveness; whether a worker that never answers makes close() block",)

    def __init__(self, calls, E=2, timeout=None, kill=False):
        self.kill = kill
        self.calls, self.E, self.timeout = tuple(calls), E, timeout
        self.name = "protocol-" + ">".join(calls) + f"-E{E}" + ("" if timeout is None else "-timeout" if timeout != "sym" else "-symbolic-timeout") + ("-workers-may-be-killed" if kill else "")
        self.site = "AsyncPettingZooVecEnv/protocol"
        self.bounds = {"api_calls": list(calls), "num_envs": E, "timeout_given": timeout is not None,
                       "symbolic": "success flag of every worker reply, result of every poll()" + (", the timeout (any real >= 0), the start instant and how long every poll waits" if timeout == "sym" else "")}

    def run(self, v):
        E = self.E
        log, queue = [], ListQueue()
        env = object.__new__(AsyncPettingZooVecEnv)
        clock, timeout = None, self.timeout
        if timeout == "sym":
            clock = Clock(v)
            timeout = v.real("timeout")
            v.assume(timeout >= 0, "timeout >= 0")
        pipes = [FaultPipe(v, i, queue, log, clock, may_be_killed=self.kill) for i in range(E)]
        procs = [Proc(v, i) for i in range(E)]
        env.num_envs, env.agents, env.possible_agents, env.num_agents = E, ["ag_0"], ["ag_0"], 1
        env.parent_pipes, env.processes, env.error_queue = list(pipes), procs, queue
        env.observations, env.copy, env.closed, env._state = NoObs(), False, False, AsyncState.DEFAULT
        # reference state machine
        state, closed, broken = AsyncState.DEFAULT, False, False
        res = []
        patches = [(av.logger, "error", lambda *a, **k: None), (av.logger, "warn", lambda *a, **k: None)]
        if clock is not None:
            patches.append((av, "time", clock))
        with patched(*patches):
            for n, call in enumerate(self.calls):
                tag = f"call{n}:{call}"
                sent_before = [len(p.sent) for p in pipes]
                log_before = len(log)
                exc = None
                t_before = clock.T if clock is not None else None
                try:
                    ret = CALLS[call](env, timeout)
                except HarnessError:
                    raise
                except Exception as ex:   # noqa: BLE001
                    exc = ex
                new_log = log[log_before:]
                polls_failed = any(k == "poll" and not ok for k, i, ok in new_log)
                n_polls = sum(1 for k, i, ok in new_log if k == "poll")
                failed = [i for k, i, ok in new_log if k == "recv" and not ok]
                sent_now = [len(p.sent) - b for p, b in zip(pipes, sent_before)]
                if broken and call not in ("close", "close_terminate", "close_timeout"):
                    # after a worker fault only close() is specified; stop judging this sequence
                    break
                if clock is not None and call.endswith("_wait"):
                    # one deadline for the whole call: however the waiting is spread over the workers, it ends within the timeout
                    res.append(Ob(f"{tag}/waiting-never-exceeds-the-timeout", le(clock.T - t_before, timeout), site="AsyncPettingZooVecEnv._poll_pipe_envs/shared-deadline"))
                if call in ("close", "close_terminate", "close_timeout"):
                    if call != "close" and not closed:
                        # with a timeout (or terminate=True) close() must not sit in a recv() for a reply that has not arrived
                        res.append(Ob(f"{tag}/close-with-a-timeout-never-blocks-on-an-unanswered-call", not any(p.blocked for p in pipes),
                                      site="AsyncPettingZooVecEnv.close/blocks-despite-timeout"))
                    if closed:
                        res.append(Ob(f"{tag}/second-close-is-a-no-op", exc is None and not any(sent_now)))
                    else:
                        res.append(Ob(f"{tag}/close-returns-without-raising", exc is None, site="AsyncPettingZooVecEnv.close/raises-with-a-pending-failed-call"))
                        res.append(Ob(f"{tag}/environment-is-closed-afterwards", env.closed is True, site="AsyncPettingZooVecEnv.close/raises-with-a-pending-failed-call"))
                        res.append(Ob(f"{tag}/every-pipe-is-closed", all(p.closed for p in pipes), site="AsyncPettingZooVecEnv.close/raises-with-a-pending-failed-call"))
                        res.append(Ob(f"{tag}/no-worker-process-left-alive-(joined-or-terminated)", all(p.joined or p.terminated for p in procs),
                                      site="AsyncPettingZooVecEnv.close/raises-with-a-pending-failed-call"))
                        closed = exc is None and env.closed
                        if failed or polls_failed:
                            broken = True
                    res.append(Ob(f"{tag}/pipes-used-correctly", not any(p.bad_use for p in pipes)))
                    if exc is not None:
                        break
                    continue
                if closed:
                    res.append(Ob(f"{tag}/use-after-close-raises-ClosedEnvironmentError", isinstance(exc, ClosedEnvironmentError) and not any(sent_now)))
                    continue
                kind, _, phase = call.partition("_")
                if call == "set_attr":
                    if state != AsyncState.DEFAULT:
                        res.append(Ob(f"{tag}/pending-call-raises-AlreadyPendingCallError-and-sends-nothing", isinstance(exc, AlreadyPendingCallError) and not any(sent_now)))
                        res.append(Ob(f"{tag}/state-unchanged", env._state == state))
                    elif failed:
                        want = WorkerBoom if failed[-1] % 2 == 0 else WorkerBoom2
                        res.append(Ob(f"{tag}/worker-exception-reaches-the-caller-with-its-type", type(exc) in (WorkerBoom, WorkerBoom2) and isinstance(exc, want)))
                        broken = True
                    else:
                        res.append(Ob(f"{tag}/succeeds", exc is None and all(s == 1 for s in sent_now) and env._state == AsyncState.DEFAULT))
                elif phase == "async":
                    if state != AsyncState.DEFAULT:
                        res.append(Ob(f"{tag}/pending-call-raises-AlreadyPendingCallError-and-sends-nothing", isinstance(exc, AlreadyPendingCallError) and not any(sent_now)))
                        res.append(Ob(f"{tag}/state-unchanged-(environment-still-usable)", env._state == state))
                    else:
                        res.append(Ob(f"{tag}/command-sent-to-every-worker", exc is None and all(s == 1 for s in sent_now)))
                        state = WAIT_OF[kind]
                        res.append(Ob(f"{tag}/state-is-waiting", env._state == state))
                else:
                    if state != WAIT_OF[kind]:
                        res.append(Ob(f"{tag}/no-matching-pending-call-raises-NoAsyncCallError", isinstance(exc, NoAsyncCallError) and not any(sent_now)))
                        res.append(Ob(f"{tag}/state-unchanged-(environment-still-usable)", env._state == state))
                    elif self.timeout is not None and not polls_failed and n_polls < E:
                        res.append(Ob(f"{tag}/with-a-timeout-(also-0)-every-worker-is-polled-before-its-reply-is-read", False, site="AsyncPettingZooVecEnv._poll_pipe_envs/timeout-zero"))
                    elif any(p.gone for p in pipes):
                        # a worker was killed while serving the call: the caller learns of it, and the environment can still be closed
                        res.append(Ob(f"{tag}/a-killed-worker-is-reported-to-the-caller", exc is not None and not isinstance(exc, WouldBlock), site="AsyncPettingZooVecEnv/killed-worker"))
                        state = AsyncState.DEFAULT
                        res.append(Ob(f"{tag}/state-back-to-default-after-a-killed-worker", env._state == state, site="AsyncPettingZooVecEnv/killed-worker"))
                        broken = True
                    elif polls_failed:
                        res.append(Ob(f"{tag}/timeout-is-reported-as-a-timeout", isinstance(exc, mp.TimeoutError)))
                        state = AsyncState.DEFAULT
                        res.append(Ob(f"{tag}/state-back-to-default", env._state == state))
                        broken = True      # replies are still in flight: only close() is specified from here
                    elif failed:
                        want = WorkerBoom if failed[-1] % 2 == 0 else WorkerBoom2
                        res.append(Ob(f"{tag}/worker-exception-reaches-the-caller-with-its-type", type(exc) in (WorkerBoom, WorkerBoom2) and isinstance(exc, want)))
                        state = AsyncState.DEFAULT
                        res.append(Ob(f"{tag}/state-back-to-default", env._state == state))
                        broken = True
                    else:
                        res.append(Ob(f"{tag}/returns-normally", exc is None))
                        state = AsyncState.DEFAULT
                        res.append(Ob(f"{tag}/state-back-to-default", env._state == state))
                res.append(Ob(f"{tag}/pipes-used-correctly", not any(p.bad_use for p in pipes)))
        return res


class WorkerFault(Case):
    """worker side: an exception inside the sub-environment is put on the error queue with its type and answered (None, False)"""
    functions = (_async_worker,)
    site = "_async_worker/fault"

    def __init__(self, command, exc="WorkerBoom"):
        self.command, self.exc = command, exc
        self.name = f"worker-fault-in-{command}" + ("" if exc == "WorkerBoom" else f"-{exc}")
        self.bounds = {"failing_command": command, "exception": exc, "symbolic": "whether the sub-environment raises"}

    def run(self, v):
        from .c12_vecenv import ScriptPipe, ListQueue as LQ, KINDS
        from agilerl.vector.pz_async_vec_env import create_shared_memory
        from gymnasium import spaces
        boom = v.bool("raises")
        space = KINDS["vector"]()
        Boom = WorkerBoom if self.exc == "WorkerBoom" else KeyboardInterrupt       # (the worker also reports KeyboardInterrupt)
        did = []

        class Env:
            possible_agents = ["ag_0"]
            closed = False

            def observation_space(self, a):
                return space

            def action_space(self, a):
                return spaces.Discrete(2)

            def reset(self, seed=None, options=None):
                if self_case.command == "reset" and bool(boom):
                    did.append(1)
                    raise Boom("reset failed")
                return {"ag_0": np.zeros(2, np.float32)}, {"ag_0": {}}

            def step(self, actions):
                if self_case.command == "step" and bool(boom):
                    did.append(1)
                    raise Boom("step failed")
                return {"ag_0": np.ones(2, np.float32)}, {"ag_0": 1.0}, {"ag_0": False}, {"ag_0": False}, {"ag_0": {}}

            def foo(self):
                if self_case.command == "_call" and bool(boom):
                    did.append(1)
                    raise Boom("call failed")
                return 7

            def close(self):
                Env.closed = True

        self_case = self
        env = Env()
        shm = create_shared_memory(1, {"ag_0": space}, mp)
        cmds = {"reset": [("reset", {})], "step": [("reset", {}), ("step", [0])], "_call": [("_call", ("foo", (), {}))]}[self.command] + [("close", None)]
        pipe = ScriptPipe(cmds, lambda: None)
        errors = LQ()
        escaped = None
        try:
            _async_worker(0, lambda: env, pipe, ScriptPipe([], lambda: None), shm, errors, ["ag_0"])
        except KeyboardInterrupt as ex:          # the worker function let it through: the process would die without reporting
            escaped = ex
        raised = bool(did)
        decided = [m for m, _ in pipe.sent]
        res = [Ob("the-worker-reports-the-exception-instead-of-dying-with-it", escaped is None, site=self.site + "/unreported"),
               Ob("error-is-queued-iff-the-sub-environment-raised", (len(errors) == 1) == raised and (not raised or errors[0][1] is Boom), site=self.site + "/unreported"),
               Ob("failing-command-is-answered-(None, False)", (not raised) or (len(decided) > 0 and decided[-1] == (None, False)), site=self.site + "/unreported"),
               Ob("sub-environment-closed-when-the-worker-exits", Env.closed)]
        Env.closed = False
        return res


def cases(tier):
    seqs = [["step_wait"], ["reset_wait"], ["call_wait"], ["step_async", "step_async"], ["reset_async", "step_wait"], ["call_async", "reset_async"],
            ["step_async", "set_attr"], ["reset_async", "reset_wait", "step_async", "step_wait"], ["call_async", "call_wait"], ["set_attr"],
            ["step_async", "step_wait", "close", "close", "step_async"], ["step_async", "close"], ["reset_async", "close_terminate"], ["close", "reset_async", "step_wait"],
            ["step_async", "reset_wait", "step_wait"]]
    cs = [Protocol(s) for s in seqs]
    cs += [Protocol(["step_async", "step_wait", "close"], timeout=0.0), Protocol(["reset_async", "reset_wait", "close"], timeout=0.0),
           Protocol(["call_async", "call_wait", "close", "close"], timeout=0.0)]
    cs += [Protocol(["step_async", "step_wait"], timeout="sym"), Protocol(["reset_async", "reset_wait", "call_async", "call_wait"], timeout="sym"),
           Protocol(["call_async", "close"]), Protocol(["reset_async", "close"]),
           Protocol(["step_async", "close_timeout"], timeout=0.0), Protocol(["call_async", "close_timeout", "close"], timeout="sym"), Protocol(["reset_async", "reset_wait", "close_timeout"], timeout=0.0)]
    cs += [Protocol(["step_async", "step_wait", "close"], kill=True), Protocol(["reset_async", "close"], kill=True), Protocol(["call_async", "call_wait", "close_timeout"], timeout=0.0, kill=True)]
    cs += [WorkerFault("reset"), WorkerFault("step"), WorkerFault("_call"), WorkerFault("step", "KeyboardInterrupt"), WorkerFault("reset", "KeyboardInterrupt")]
    if tier == "thorough":
        cs += [Protocol(s, E=3) for s in seqs[:12]] + [Protocol(["step_async", "step_wait", "close"], E=3, timeout=0.0),
                                                       Protocol(["step_async", "step_wait"], E=3, timeout="sym"), Protocol(["step_async", "close"], E=3)]
    return cs
