"""C20 (in part) — step and population accounting of the training loops.

Real code executed: the whole of train_on_policy, train_multi_agent_on_policy, train_off_policy,
train_multi_agent_off_policy, train_bandits and train_offline (no logging) with a scripted vector environment, duck
agents and a duck replay memory; in the "evolve" cases with the REAL TournamentSelection and
tournament_selection_and_mutation (duck agents that can clone themselves, a duck Mutations) and a recorder in place of
save_population_checkpoint.
Symbolic: the step budget max_steps, the evolution frequency evo_steps (episode_steps for the bandit loop), the agents'
learn_step, the checkpoint frequency (small bounded integers; loop trip counts that depend on them fork).  Decided: the
accounting part of the property — population size, order and distinct indices, step counters equal to the environment
steps actually taken, stop in the first generation in which the documented budget is met, one evaluation per agent and
generation, the learn-call schedule, elitism (the best agent of a generation is carried into the next with its
counters), how often selection and checkpointing run.
NOT decided (outside; the rest of C20): that learn() accepts what the real samplers return for every algorithm / memory
combination, evaluation, mutation and checkpoint files with real agents.
"""
from __future__ import annotations

import numpy as np
from gymnasium import spaces

from .common import *   # noqa: F401,F403
from .common import Case, Ob, require, val, elems, eq, le, ge, conj, disj, neg, HarnessError, patched, ShimNumpy, smin, smax
from symx.core import Sym
from symx.shim import ShimInt

import agilerl.training.train_on_policy as top_mod
import agilerl.training.train_multi_agent_on_policy as tmop_mod
import agilerl.training.train_off_policy as toff_mod
import agilerl.training.train_multi_agent_off_policy as tmoff_mod
import agilerl.training.train_bandits as tband_mod
import agilerl.training.train_offline as tofl_mod
import agilerl.utils.utils as utils_mod
from agilerl.hpo.tournament import TournamentSelection

PROPERTY = "C20"


class _Bar:
    def update(self, *a, **k):
        pass

    def close(self):
        pass


def cint(x):
    return x.__index__() if isinstance(x, Sym) else int(x)


class VecEnv:
    """scripted vector environment: never ends an episode; counts reset() and step() calls"""

    def __init__(self, num_envs, multi=None, bandit=False):
        self.num_envs, self.multi, self.bandit = num_envs, multi, bandit
        self.steps, self.resets = 0, 0
        self.agents = list(multi) if multi else None

    def _obs(self):
        if self.multi:
            return {a: np.zeros((self.num_envs, 1), dtype=np.float32) for a in self.multi}
        return np.zeros((self.num_envs, 1), dtype=np.float32)

    def reset(self, *a, **k):
        self.resets += 1
        if self.bandit:
            return np.zeros((2, 1), dtype=np.float32)
        return self._obs(), {}

    def step(self, action):
        self.steps += 1
        if self.bandit:
            return np.zeros((2, 1), dtype=np.float32), 0.0
        z, f = np.zeros(self.num_envs, dtype=np.float32), np.zeros(self.num_envs, dtype=bool)
        if self.multi:
            return self._obs(), {a: z for a in self.multi}, {a: f for a in self.multi}, {a: f for a in self.multi}, {}
        return self._obs(), z, f, f, {}


class Agent:
    """duck agent: counts what the loop asks of it; clone() copies the counters (they belong to the lineage)"""

    def __init__(self, index, env, learn_step, loop, multi=None, batch_size=4):
        self.index, self.env, self.learn_step, self.batch_size, self.loop = index, env, learn_step, batch_size, loop
        self.steps, self.scores, self.fitness, self.mut = [0], [], [], "None"
        self.env_steps_taken, self.tests, self.learns = 0, 0, 0
        self.lineage = index
        self.action_space = {a: spaces.Discrete(2) for a in multi} if multi else spaces.Discrete(2)
        self.agent_ids, self.shared_agent_ids, self.actors = (list(multi), ["ag"], []) if multi else (None, None, None)
        self.multi = multi
        self.beta = 0.4
        self.algo = "Duck"
        self.regret = [0]
        self.discrete_actions = True
        self.start = 0          # step counter on entry (a population that has trained before)

    def clone(self, index=None, wrap=True):
        c = Agent.__new__(Agent)
        c.__dict__.update(self.__dict__)
        for k in ("steps", "scores", "fitness", "regret"):
            setattr(c, k, list(getattr(self, k)))
        if index is not None:
            c.index = index
        return c

    def set_training_mode(self, m):
        pass

    def reset_action_noise(self, idx):
        pass

    def get_homo_id(self, a):
        return "ag"

    def get_action(self, *a, **k):
        n = self.env.num_envs
        self.env_steps_taken += 1 if self.loop == "bandit" else n      # every action is followed by exactly one env.step in the loops
        if self.loop == "bandit":
            return 0
        if self.loop == "ma-off":
            d = {a_: np.zeros(n, dtype=np.int64) for a_ in self.multi}
            return d, d
        if self.multi:
            d = {a_: np.zeros(n, dtype=np.int64) for a_ in self.multi}
            return d, d, {a_: np.zeros(n) for a_ in self.multi}, d
        if k.get("action_mask", "x") is None or len(a) == 2 or "action_mask" in k:
            return np.zeros(n, dtype=np.int64), np.zeros(n), np.zeros(n), np.zeros(n)
        return np.zeros(n, dtype=np.int64)

    def learn(self, *a, **k):
        self.learns += 1
        if self.loop == "ma-off":
            return {a_: (0.0, 0.0) for a_ in self.multi}
        return {"ag": 0.0} if self.multi else 0.0

    def assemble_homogeneous_outputs(self, x, n):
        return {"ag": np.zeros(1)}

    def test(self, env, **k):
        self.tests += 1
        # a fitness that moves the best agent around between generations (concrete: ranking is C05's subject)
        f = float((self.index * 7 + self.tests * 3) % 5)
        self.fitness.append(f)
        return f


class Memory:
    """duck replay memory: either never ready (no learn step) or always ready (the learn schedule is observable)"""

    def __init__(self, ready):
        self.ready, self.adds, self.samples = ready, 0, 0
        self.size = 100 if ready else 0
        self.counter = 100 if ready else 0

    def __len__(self):
        return 100 if self.ready else 0

    def add(self, *a, **k):
        self.adds += 1

    def save_to_memory(self, *a, **k):
        self.adds += 1

    def sample(self, *a, **k):
        self.samples += 1
        return {"obs": None}


class Mut:
    """duck Mutations: marks the agents, never changes the population"""

    def __init__(self):
        self.calls = 0

    def mutation(self, pop, pre_training_mut=False):
        self.calls += 1
        for a in pop:
            a.mut = "dummy"
        return pop


class Tourn(TournamentSelection):
    """the real selection, with its inputs and outputs recorded"""

    def __init__(self, P):
        super().__init__(2, True, P, 1)
        self.rounds = []

    def select(self, population):
        before = [(a.lineage, a.index, a.steps[-1], list(a.fitness), a.env_steps_taken) for a in population]
        elite, new = super().select(population)
        after = [(a.lineage, a.index, a.steps[-1], list(a.fitness), a.env_steps_taken) for a in new]      # a snapshot: the agents train on
        self.rounds.append((before, elite, after))
        return elite, new


LOOPS = {"on": (top_mod, "train_on_policy"), "ma-on": (tmop_mod, "train_multi_agent_on_policy"), "off": (toff_mod, "train_off_policy"),
         "ma-off": (tmoff_mod, "train_multi_agent_off_policy"), "bandit": (tband_mod, "train_bandits"), "offline": (tofl_mod, "train_offline")}


class Accounting(Case):
    stubs = ("environment = scripted vector env that never ends an episode and counts its step() calls", "agents = duck agents counting get_action / learn / test calls (clone() copies the counters)",
             "replay memory = duck memory, never ready (no learn step) or always ready (learn schedule observable)", "evolve cases: REAL TournamentSelection (tournament size 2, elitism, concrete numpy RNG re-seeded per run) and "
             "tournament_selection_and_mutation, duck Mutations, save_population_checkpoint = recorder", "tqdm / print silenced; isinstance(x, int) in the training modules accepts integer proxies")
    assumptions = ("1 <= max_steps <= 8, 1 <= evo_steps <= 4, 1 <= learn_step <= 3, 1 <= checkpoint <= 4 (loops fork on these)",)
    outside = ("that learn() accepts what the real samplers return, evaluation / mutation / checkpoint files with real agents (the rest of C20)",)

    def __init__(self, loop, num_envs, pop=2, evolve=False, ready=False, resumed=False, early=False):
        self.loop, self.E, self.P, self.evolve, self.ready, self.resumed, self.early = loop, num_envs, pop, evolve, ready, resumed, early
        self.mod, self.fn = LOOPS[loop]
        self.functions = (getattr(self.mod, self.fn),) + ((TournamentSelection.select, utils_mod.tournament_selection_and_mutation) if evolve else ())
        self.name = (f"accounting-{self.fn}-envs{num_envs}-pop{pop}" + ("-evolve" if evolve else "") + ("-ready" if ready else "") + ("-resumed" if resumed else "")
                     + ("-early-stop" if early else ""))
        self.site = f"{self.fn}/accounting"
        self.bounds = {"loop": self.fn, "num_envs": num_envs, "population": pop, "tournament+mutation+checkpoint": evolve, "memory always ready": ready,
                       "resumed": "every agent enters with its own symbolic step counter in [0,2] (a population that has trained before)" if resumed else False,
                       "early_stop": "target below every fitness and a step history of 99 earlier generations: the early-stopping exit is taken after the first generation" if early else False,
                       "symbolic": "max_steps in [1,8], evo_steps (bandits: episode_steps and evo_steps) in [1,4], learn_step in [1,3] (per agent; shared by the population in the evolve cases), checkpoint in [1,4]"}

    def run(self, v):
        E, P, loop = self.E, self.P, self.loop
        max_steps, evo = v.int("max_steps"), v.int("evo_steps")
        if self.evolve:
            ls0 = v.int("learn_step")
            lss = [ls0] * P          # after selection the population is a mix of lineages: one schedule for all keeps the reference simple
        else:
            lss = [v.int(f"learn_step{i}") for i in range(P)]          # per agent: members of a population may differ
        v.assume(conj(max_steps >= 1, max_steps <= 8, evo >= 1, evo <= 4, *[conj(x >= 1, x <= 3) for x in lss]))
        ep = ck = None
        if loop == "bandit":
            ep = v.int("episode_steps")
            v.assume(conj(ep >= 1, ep <= 3))
        if self.evolve:
            ck = v.int("checkpoint")
            v.assume(conj(ck >= 1, ck <= 4))
        if loop in ("off", "ma-off"):
            # these loops take evo_steps // num_envs steps per generation: with evo_steps < num_envs no step is ever taken
            # and the budget loop cannot end (a configuration error, not judged here)
            v.assume(evo >= E, "off-policy: evo_steps >= num_envs")
        # divisors are decided up front (one fork per value): steps // checkpoint and steps // evo_steps with both operands
        # symbolic would be nonlinear integer arithmetic
        if self.evolve:
            ck = cint(ck)
        if loop == "bandit":
            evo = cint(evo)
        np.random.seed(12345)      # the tournament draws from numpy's global RNG: every re-execution must see the same draws
        multi = ["ag_0", "ag_1"] if loop in ("ma-on", "ma-off") else None
        env = VecEnv(E, multi, bandit=(loop == "bandit"))
        pop = [Agent(i, env, lss[i], loop, multi) for i in range(P)]
        pop_in = list(pop)
        s0 = [0] * P
        if self.resumed:
            # a population that has trained before: the counters the loops read are the agents' own, not a fresh local one
            s0 = [v.int(f"steps_before{i}") for i in range(P)]
            v.assume(conj(*[conj(x >= 0, x <= 2) for x in s0]))
            for a, x in zip(pop, s0):
                a.steps = [x]
                a.start = x
        if self.early:
            for a in pop:
                a.steps = [0] * 99 + [0]                  # 99 generations recorded earlier: the early-stopping exit needs len(steps) >= 100
        mem = Memory(self.ready)
        saves = []
        patches = [(self.mod, "trange", lambda *a, **k: _Bar()), (self.mod, "print", lambda *a, **k: None),
                   (self.mod, "save_population_checkpoint", lambda **k: saves.append([a.index for a in k["population"]]))]
        if v.mode != "real":
            patches.append((self.mod, "int", ShimInt))
        fn = getattr(self.mod, self.fn)
        kw = dict(max_steps=max_steps, evo_steps=evo, verbose=False)
        if self.early:
            kw["target"] = -1.0                           # below every fitness the duck agents report
        tourn = mut = None
        if self.evolve:
            tourn, mut = Tourn(P), Mut()
            kw.update(tournament=tourn, mutation=mut, checkpoint=ck, checkpoint_path="unused")
        with patched(*patches):
            if loop == "off":
                out_pop, fits = fn(env, "stub-env", "Duck", pop, mem, **kw)
            elif loop == "ma-off":
                out_pop, fits = fn(env, "stub-env", "Duck", pop, mem, sum_scores=True, **kw)
            elif loop == "on":
                out_pop, fits = fn(env, "stub-env", "Duck", pop, **kw)
            elif loop == "ma-on":
                out_pop, fits = fn(env, "stub-env", "Duck", pop, sum_scores=True, **kw)
            elif loop == "bandit":
                out_pop, fits = fn(env, "stub-env", "Duck", pop, mem, episode_steps=ep, **kw)
            else:
                data = {"observations": np.zeros((3, 1), dtype=np.float32), "actions": np.zeros((3, 1), dtype=np.int64),
                        "rewards": np.zeros((3, 1), dtype=np.float32), "terminals": np.zeros((3, 1), dtype=np.float32)}
                out_pop, fits = fn(env, "stub-env", data, "Duck", pop, mem, **kw)
        ms, ev = cint(max_steps), cint(evo)
        ls_c = [cint(x) for x in lss]
        s0 = [cint(x) for x in s0]
        # reference: environment steps agent i takes per generation, as the loops are documented
        if loop in ("off", "ma-off"):
            per = [(ev // E) * E for _ in ls_c]
        elif loop == "bandit":
            per = [cint(ep) for _ in ls_c]
        elif loop == "offline":
            per = [ev for _ in ls_c]          # offline: a "step" is a learn step on the dataset
        else:
            per = [-(-ev // l) * -(-l // E) * E for l in ls_c]
        final = list(out_pop)
        res = [Ob("population-keeps-its-size", len(final) == P)]
        if not self.evolve:
            res.append(Ob("population-keeps-its-order", all(a is b for a, b in zip(final, pop_in))))
        res.append(Ob("indices-stay-distinct", len({a.index for a in final}) == len(final), site=self.site + "/indices"))
        for i, a in enumerate(final):
            taken = a.learns if loop == "offline" else a.env_steps_taken
            res.append(Ob(f"agent{i}/step-counter-equals-the-environment-steps-it-took", a.steps[-1] == a.start + taken, site=self.site + "/step-counter"))
        # generations actually run = evaluations per agent
        G = final[0].tests
        res.append(Ob("one-evaluation-per-agent-and-generation", all(a.tests == G and len(a.fitness) == G for a in final), site=self.site + "/fitness-entries"))
        res.append(Ob("returned-fitness-history-has-one-row-per-generation-and-one-entry-per-agent", len(fits) == G and all(isinstance(f, list) and len(f) == P for f in fits),
                      site=self.site + "/returned-fitnesses"))
        if min(per) > 0:
            if loop == "ma-on":
                done_after = lambda g: sum(b + g * x for b, x in zip(s0, per)) >= ms          # budget summed over the population
            else:
                done_after = lambda g: any(b + g * x >= ms for b, x in zip(s0, per))          # per-agent budget: stop as soon as one agent has met it
            if self.early:
                # the target is met from the first evaluation on and 100 generations are on record: one generation, then the early exit
                res.append(Ob("early-stopping-exit-after-the-first-generation", G == 1, site=self.site + "/early-stop"))
            else:
                res.append(Ob("stops-in-the-first-generation-in-which-the-budget-is-met", done_after(G) and (G == 0 or not done_after(G - 1)), site=self.site + "/stop-generation"))
            if not self.evolve:
                res.append(Ob("every-agent-took-the-documented-steps-per-generation", all(a.steps[-1] == b + G * x for a, b, x in zip(final, s0, per)), site=self.site + "/step-counter"))
            else:
                res.append(Ob("every-agent-took-the-documented-steps-per-generation", all(a.steps[-1] == G * x for a, x in zip(final, per)), site=self.site + "/step-counter"))
        # learn-call schedule
        if loop in ("on", "ma-on"):
            res.append(Ob("a-learn-call-after-every-learn_step-chunk", all(a.learns == G * -(-ev // l) for a, l in zip(final, ls_c)), site=self.site + "/learn-schedule"))
        elif loop == "offline":
            res.append(Ob("one-learn-call-per-step", all(a.learns == G * ev for a in final), site=self.site + "/learn-schedule"))
        elif loop == "bandit":
            want = [G * cint(ep) * l if self.ready else 0 for l in ls_c]
            res.append(Ob("learn_step-learn-calls-per-environment-step-once-the-memory-is-ready", all(a.learns == w for a, w in zip(final, want)), site=self.site + "/learn-schedule"))
        else:
            T = ev // E
            want = []
            for l in ls_c:
                if not self.ready:
                    want.append(0)
                elif l > E:
                    k = l // E
                    want.append(G * -(-T // k))          # every (learn_step // num_envs)-th iteration
                else:
                    want.append(G * T * (E // l))        # num_envs // learn_step learn calls per iteration
            res.append(Ob("learn-calls-follow-learn_step-and-num_envs", all(a.learns == w for a, w in zip(final, want)), site=self.site + "/learn-schedule"))
        if loop in ("off", "ma-off", "bandit"):
            res.append(Ob("one-memory-write-per-environment-step", mem.adds == env.steps, site=self.site + "/memory-writes"))
        if self.evolve:
            c_ck = cint(ck)
            # selection: every generation (bandits: whenever another evo_steps steps have been completed, at most once a generation)
            want_rounds = min(G, (G * per[0]) // ev) if loop == "bandit" else G
            res.append(Ob("selection-and-mutation-run-as-often-as-documented", len(tourn.rounds) == want_rounds and mut.calls == want_rounds + 1, site=self.site + "/selection-count"))
            ok_elite, ok_size, ok_idx, ok_parent = True, True, True, True
            for before, elite, new in tourn.rounds:
                means = [b[3][-1] for b in before]
                best = max(range(len(before)), key=lambda j: means[j])
                top = [b for b in before if b[3][-1] == means[best]]
                # the first member of the next generation is the best agent, with its counters and history
                ok_elite &= any(new[0] == b for b in top)
                ok_size &= len(new) == P
                ok_idx &= len({a[1] for a in new}) == len(new) and all(a[1] > max(b[1] for b in before) for a in new[1:])
                ok_parent &= all(any(a[0] == b[0] and a[2:] == b[2:] for b in before) for a in new)
            res.append(Ob("elitism/best-agent-of-the-generation-is-carried-over-with-its-counters", ok_elite, site=self.site + "/elitism"))
            res.append(Ob("selection/next-generation-has-the-population-size", ok_size, site=self.site + "/selection"))
            res.append(Ob("selection/fresh-distinct-indices", ok_idx, site=self.site + "/indices"))
            res.append(Ob("selection/every-member-continues-a-parent-of-the-previous-generation", ok_parent, site=self.site + "/selection"))
            # checkpoints: whole populations, never more than one per generation nor more than the steps allow, at least one once a
            # full checkpoint interval has been trained
            fin = final[0].steps[-1]
            res.append(Ob("checkpoints/whole-population-saved", all(len(sv) == P for sv in saves), site=self.site + "/checkpoint"))
            res.append(Ob("checkpoints/count-within-the-documented-frequency", len(saves) <= min(G, fin // c_ck) and (len(saves) >= 1 or fin < c_ck), site=self.site + "/checkpoint"))
        if not self.early:
            res.append(Ob("twin/never-more-than-one-generation", G <= 1, expect="sat"))
        return res


class EnvAction(Case):
    """on-policy loops with a Box action space: what the loop hands to env.step() is a member of the action space - the agent's
    action scaled (PPO: a squashed policy's sample lies in [-1,1] and is scaled by the loop) or left alone (IPPO: the
    policy's forward pass has already scaled it) or clipped (unsquashed policies)"""
    stubs = ("environment = scripted vector env recording the actions it is stepped with", "agent = duck agent whose actor(s) are REAL StochasticActor networks (their scale_action and bounds are used by the loops); "
             "get_action returns arbitrary values within the algorithm's contract as decided under C14: PPO returns the raw sample (in [-1,1] when squashed), IPPO the output of actor.forward (inside the box when squashed)")
    LOW, HIGH = [-1.0, 0.5], [2.0, 0.75]

    def __init__(self, loop, squash, E=2, steps=2):
        from agilerl.networks.actors import StochasticActor
        self.loop, self.squash, self.E, self.steps = loop, squash, E, steps
        self.mod, self.fn = LOOPS[loop]
        self.functions = (getattr(self.mod, self.fn), StochasticActor.scale_action)
        self.name = f"env-action-{self.fn}-{'squash' if squash else 'nosquash'}-envs{E}"
        self.site = f"{self.fn}/action-handed-to-the-environment"
        self.bounds = {"loop": self.fn, "num_envs": E, "squash_output": squash, "bounds": "per-dimension: low [-1, 0.5], high [2, 0.75]", "steps": steps, "symbolic": "every action value the agent returns"}
        self._actor = None

    def actor(self):
        from agilerl.networks.actors import StochasticActor
        if self._actor is None:
            asp = spaces.Box(np.array(self.LOW, dtype=np.float32), np.array(self.HIGH, dtype=np.float32))
            self._actor = StochasticActor(spaces.Box(-1, 1, (1,)), asp, squash_output=self.squash, encoder_config={"hidden_size": [2]}, head_config={"hidden_size": [2]})
        return self._actor

    def run(self, v):
        E, loop = self.E, self.loop
        multi = ["ag_0", "ag_1"] if loop == "ma-on" else None
        asp = spaces.Box(np.array(self.LOW, dtype=np.float32), np.array(self.HIGH, dtype=np.float32))
        actor = self.actor()
        require(actor, "scale_action", "squash_output", "action_low", "action_high")
        case = self
        sent, given = [], []

        class Env(VecEnv):
            def step(self, action):
                sent.append(action)
                return super().step(action)

        class PG(Agent):
            def get_action(self, *a, **k):
                self.env_steps_taken += E
                t = len(given)
                if multi:
                    acts = {}
                    for a_ in multi:
                        arr = v.array(f"act{t}_{a_}", (E, 2))
                        if case.squash:          # IPPO: actor.forward has scaled the sample into the box
                            for x, lo, hi in [(arr[e, k_], case.LOW[k_], case.HIGH[k_]) for e in range(E) for k_ in range(2)]:
                                v.assume(conj(x >= lo, x <= hi), "IPPO returns the scaled action of a squashed policy (C14)")
                        acts[a_] = arr
                    given.append(acts)
                    z = {a_: np.zeros(E) for a_ in multi}
                    return acts, z, z, z
                arr = v.array(f"act{t}", (E, 2))
                if case.squash:                  # PPO: the head's tanh sample, not yet scaled
                    for x in elems(arr):
                        v.assume(conj(x >= -1, x <= 1), "PPO returns the squashed sample in [-1,1] in training mode (C14)")
                given.append(arr)
                return arr, np.zeros(E), np.zeros(E), np.zeros(E)

        env = Env(E, multi)
        ag = PG(0, env, self.steps * E, loop, multi)
        ag.action_space = {a: asp for a in multi} if multi else asp
        if multi:
            ag.actors = [actor]
        else:
            ag.actor = actor
        patches = [(self.mod, "trange", lambda *a, **k: _Bar()), (self.mod, "print", lambda *a, **k: None)]
        fn = getattr(self.mod, self.fn)
        with patched(*patches):
            if multi:
                fn(env, "stub-env", "Duck", [ag], sum_scores=True, max_steps=self.steps * E, evo_steps=self.steps * E, verbose=False)
            else:
                fn(env, "stub-env", "Duck", [ag], max_steps=self.steps * E, evo_steps=self.steps * E, verbose=False)
        res = [Ob("one-environment-step-per-action", len(sent) == len(given) and len(sent) >= 1)]
        if len(sent) != len(given):
            return res
        for t, (s_, g) in enumerate(zip(sent, given)):
            pairs = [(a_, np.asarray(s_[a_]), g[a_]) for a_ in multi] if multi else [("", np.asarray(s_), g)]
            for tag, got, raw in pairs:
                ok = tuple(got.shape) == (E, 2)
                res.append(Ob(f"step{t}/{tag}/action-has-the-batch-shape", ok))
                if not ok:
                    continue
                for e in range(E):
                    for k_ in range(2):
                        lo, hi, x, r = self.LOW[k_], self.HIGH[k_], got[e, k_], raw[e, k_]
                        res.append(Ob(f"step{t}/{tag}/env{e}/dim{k_}/inside-the-action-space", conj(ge(x, lo), le(x, hi)), site=self.site))
                        if self.squash and not multi:
                            res.append(Ob(f"step{t}/{tag}/env{e}/dim{k_}/squashed-sample-scaled-affinely-into-the-box", eq(x, lo + 0.5 * (r + 1) * (hi - lo)), site=self.site))
                        elif self.squash:
                            res.append(Ob(f"step{t}/{tag}/env{e}/dim{k_}/already-scaled-action-is-handed-on-unchanged", eq(x, r), site=self.site))
                        else:
                            res.append(Ob(f"step{t}/{tag}/env{e}/dim{k_}/unsquashed-action-is-clipped", eq(x, smin(smax(r, lo), hi)), site=self.site))
        return res


def cases(tier):
    cs = [Accounting("on", 1), Accounting("on", 2), Accounting("ma-on", 2), Accounting("off", 1), Accounting("off", 2),
          Accounting("ma-off", 2), Accounting("bandit", 1), Accounting("offline", 1),
          Accounting("off", 2, ready=True), Accounting("ma-off", 2, ready=True), Accounting("bandit", 1, ready=True),
          Accounting("on", 2, evolve=True), Accounting("off", 2, evolve=True, ready=True), Accounting("bandit", 1, evolve=True),
          EnvAction("on", True, E=1), EnvAction("on", False, E=1), EnvAction("ma-on", True, E=1), EnvAction("ma-on", False, E=1, steps=1),
          Accounting("ma-on", 2, resumed=True), Accounting("off", 2, resumed=True), Accounting("on", 1, early=True), Accounting("ma-off", 2, early=True),
          Accounting("ma-on", 2, early=True), Accounting("off", 2, early=True)]
    if tier == "thorough":
        cs += [Accounting("on", 3, pop=3), Accounting("ma-on", 1, pop=3), Accounting("off", 3, pop=3),
               Accounting("ma-off", 1, pop=3, ready=True), Accounting("off", 3, pop=3, ready=True), Accounting("off", 1, ready=True),
               Accounting("ma-on", 2, evolve=True), Accounting("ma-off", 2, evolve=True), Accounting("offline", 1, evolve=True),
               Accounting("on", 1, pop=3, evolve=True), Accounting("bandit", 1, pop=3, evolve=True, ready=True),
               Accounting("on", 2, resumed=True), Accounting("ma-off", 2, resumed=True), Accounting("bandit", 1, resumed=True), Accounting("offline", 1, resumed=True),
               Accounting("bandit", 1, early=True), Accounting("offline", 1, early=True),
               EnvAction("on", True, E=2), EnvAction("on", False, E=2, steps=1), EnvAction("ma-on", True, E=2), EnvAction("ma-on", False, E=1, steps=2)]
    return cs
