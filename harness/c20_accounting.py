"""C20 (in part) — step and population accounting of the training loops.

Real code executed: the whole of train_on_policy, train_multi_agent_on_policy and train_off_policy (no tournament, no
mutation, no checkpoints, no logging) with a scripted vector environment, duck agents and a duck replay memory.
Symbolic: the step budget max_steps, the evolution frequency evo_steps, the agents' learn_step (small bounded integers;
loop trip counts that depend on them fork).  Decided: the accounting part of the property — population size and order,
step counters equal to the environment steps actually taken, stop in the first generation in which the documented
budget is met, one evaluation per agent and generation.
NOT decided (outside; the rest of C20): that learn() accepts what the real samplers return for every algorithm / memory
combination, evaluation, selection, mutation and checkpointing with real agents.
"""
from __future__ import annotations

import numpy as np
from gymnasium import spaces

from .common import *   # noqa: F401,F403
from .common import Case, Ob, require, val, elems, eq, conj, disj, neg, HarnessError, patched, ShimNumpy
from symx.core import Sym
from symx.shim import ShimInt

import agilerl.training.train_on_policy as top_mod
import agilerl.training.train_multi_agent_on_policy as tmop_mod
import agilerl.training.train_off_policy as toff_mod

PROPERTY = "C20"


class _Bar:
    def update(self, *a, **k):
        pass

    def close(self):
        pass


def cint(x):
    return x.__index__() if isinstance(x, Sym) else int(x)


class VecEnv:
    """scripted vector environment: never ends an episode; counts reset() and step() calls per agent under training / test"""

    def __init__(self, num_envs, multi=None):
        self.num_envs, self.multi = num_envs, multi
        self.steps, self.resets = 0, 0

    def _obs(self):
        if self.multi:
            return {a: np.zeros((self.num_envs, 1), dtype=np.float32) for a in self.multi}
        return np.zeros((self.num_envs, 1), dtype=np.float32)

    def reset(self, *a, **k):
        self.resets += 1
        return self._obs(), {}

    def step(self, action):
        self.steps += 1
        z, f = np.zeros(self.num_envs, dtype=np.float32), np.zeros(self.num_envs, dtype=bool)
        if self.multi:
            return self._obs(), {a: z for a in self.multi}, {a: f for a in self.multi}, {a: f for a in self.multi}, {}
        return self._obs(), z, f, f, {}


class Agent:
    """duck agent: counts what the loop asks of it"""

    def __init__(self, index, env, learn_step, multi=None, batch_size=4):
        self.index, self.env, self.learn_step, self.batch_size = index, env, learn_step, batch_size
        self.steps, self.scores, self.fitness, self.mut = [0], [], [], "None"
        self.env_steps_taken, self.tests, self.learns = 0, 0, 0
        self.action_space = {a: spaces.Discrete(2) for a in multi} if multi else spaces.Discrete(2)
        self.agent_ids, self.shared_agent_ids, self.actors = (list(multi), ["ag"], []) if multi else (None, None, None)
        self.multi = multi
        self.beta = 0.4
        self.algo = "Duck"

    def set_training_mode(self, m):
        pass

    def get_homo_id(self, a):
        return "ag"

    def get_action(self, *a, **k):
        self.env_steps_taken += self.env.num_envs          # every action is followed by exactly one env.step in the loops
        n = self.env.num_envs
        if self.multi:
            d = {a_: np.zeros(n, dtype=np.int64) for a_ in self.multi}
            return d, d, {a_: np.zeros(n) for a_ in self.multi}, d
        if k.get("action_mask", "x") is None or len(a) == 2 or "action_mask" in k:
            return np.zeros(n, dtype=np.int64), np.zeros(n), np.zeros(n), np.zeros(n)
        return np.zeros(n, dtype=np.int64)

    def learn(self, *a, **k):
        self.learns += 1
        return {"ag": 0.0} if self.multi else 0.0

    def assemble_homogeneous_outputs(self, x, n):
        return {"ag": np.zeros(1)}

    def test(self, env, **k):
        self.tests += 1
        self.fitness.append(0.0)
        return {"ag": 0.0} if False else 0.0


class Memory:
    size = 0

    def __len__(self):
        return 0

    def add(self, *a, **k):
        self.adds = getattr(self, "adds", 0) + 1


class Accounting(Case):
    stubs = ("environment = scripted vector env that never ends an episode and counts its step() calls", "agents = duck agents counting get_action / learn / test calls",
             "replay memory = duck memory that never has enough samples (off-policy: no learn step)", "tqdm / print silenced; isinstance(x, int) in the training modules accepts integer proxies")
    assumptions = ("1 <= max_steps <= 8, 1 <= evo_steps <= 4, 1 <= learn_step <= 3 (loops fork on these)",)
    outside = ("that learn() accepts what the real samplers return, evaluation / tournament / mutation / checkpointing with real agents (the rest of C20)",)

    def __init__(self, loop, num_envs, pop=2):
        self.loop, self.E, self.P = loop, num_envs, pop
        self.mod, self.fn = {"on": (top_mod, "train_on_policy"), "ma-on": (tmop_mod, "train_multi_agent_on_policy"), "off": (toff_mod, "train_off_policy")}[loop]
        self.functions = (getattr(self.mod, self.fn),)
        self.name = f"accounting-{self.fn}-envs{num_envs}-pop{pop}"
        self.site = f"{self.fn}/accounting"
        self.bounds = {"loop": self.fn, "num_envs": num_envs, "population": pop, "symbolic": "max_steps in [1,8], evo_steps in [1,4], every agent's own learn_step in [1,3]"}

    def run(self, v):
        E, P = self.E, self.P
        max_steps, evo = v.int("max_steps"), v.int("evo_steps")
        lss = [v.int(f"learn_step{i}") for i in range(P)]          # per agent: members of a population may differ
        v.assume(conj(max_steps >= 1, max_steps <= 8, evo >= 1, evo <= 4, *[conj(x >= 1, x <= 3) for x in lss]))
        if self.loop == "off":
            # train_off_policy takes evo_steps // num_envs steps per generation: with evo_steps < num_envs no step is ever
            # taken and the budget loop cannot end (a configuration error, not judged here)
            v.assume(evo >= E, "off-policy: evo_steps >= num_envs")
        multi = ["ag_0", "ag_1"] if self.loop == "ma-on" else None
        env = VecEnv(E, multi)
        pop = [Agent(i, env, lss[i], multi) for i in range(P)]
        pop_in = list(pop)
        patches = [(self.mod, "trange", lambda *a, **k: _Bar()), (self.mod, "print", lambda *a, **k: None)]
        if v.mode != "real":
            patches.append((self.mod, "int", ShimInt))
        fn = getattr(self.mod, self.fn)
        with patched(*patches):
            if self.loop == "off":
                out_pop, fits = fn(env, "stub-env", "Duck", pop, Memory(), max_steps=max_steps, evo_steps=evo, verbose=False)
            elif self.loop == "on":
                out_pop, fits = fn(env, "stub-env", "Duck", pop, max_steps=max_steps, evo_steps=evo, verbose=False)
            else:
                out_pop, fits = fn(env, "stub-env", "Duck", pop, sum_scores=True, max_steps=max_steps, evo_steps=evo, verbose=False)
        ms, ev = cint(max_steps), cint(evo)
        ls_c = [cint(x) for x in lss]
        # reference: environment steps agent i takes per generation, as the loops are documented
        if self.loop == "off":
            per = [(ev // E) * E for _ in ls_c]
        else:
            per = [-(-ev // l) * -(-l // E) * E for l in ls_c]
        per_gen = min(per)
        res = [Ob("population-keeps-its-size-and-order", len(out_pop) == P and all(a is b for a, b in zip(out_pop, pop_in)))]
        res.append(Ob("indices-stay-distinct", len({a.index for a in out_pop}) == len(out_pop)))
        for a in pop_in:
            res.append(Ob(f"agent{a.index}/step-counter-equals-the-environment-steps-it-took", a.steps[-1] == a.env_steps_taken, site=self.site + "/step-counter"))
        # generations actually run = evaluations per agent
        G = pop_in[0].tests
        res.append(Ob("one-evaluation-per-agent-and-generation", all(a.tests == G and len(a.fitness) == G for a in pop_in), site=self.site + "/fitness-entries"))
        if per_gen > 0:
            if self.loop == "ma-on":
                # budget summed over the population
                done_after = lambda g: sum(g * x for x in per) >= ms
            else:
                # per-agent budget: training stops as soon as one agent has met it
                done_after = lambda g: any(g * x >= ms for x in per)
            res.append(Ob("stops-in-the-first-generation-in-which-the-budget-is-met", G >= 1 and done_after(G) and not done_after(G - 1), site=self.site + "/stop-generation"))
            res.append(Ob("every-agent-took-the-documented-steps-per-generation", all(a.steps[-1] == G * x for a, x in zip(pop_in, per)), site=self.site + "/step-counter"))
        if self.loop != "off":
            res.append(Ob("a-learn-call-after-every-learn_step-chunk", all(a.learns == G * -(-ev // l) for a, l in zip(pop_in, ls_c))))
        res.append(Ob("twin/never-more-than-one-generation", G <= 1, expect="sat"))
        return res


def cases(tier):
    cs = [Accounting("on", 1), Accounting("on", 2), Accounting("ma-on", 2), Accounting("off", 1), Accounting("off", 2)]
    if tier == "thorough":
        cs += [Accounting("on", 3, pop=3), Accounting("ma-on", 1, pop=3), Accounting("off", 3, pop=3)]
    return cs
