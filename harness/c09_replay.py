"""C09 — replay buffers hold exactly the most recent transitions, each one intact.

Real code executed: ReplayBuffer.add/_init/sample/clear/__len__ on real TensorDict storage (SymTensor leaves in
sym mode) with SYMBOLIC count/cursor/size (inductive step from an arbitrary state satisfying the ring
invariant); MultiAgentReplayBuffer.save_to_memory*/_reorganize_dicts/_process_transition/stack_transitions/sample.
"""
from __future__ import annotations

import numpy as np
import torch
from tensordict import TensorDict

from .common import *   # noqa: F401,F403
from .common import Case, Ob, require, val, elems, eq, conj, disj, neg, all_eq, HarnessError, patched, ShimTorch, ShimNumpy
from symx.core import ite, Sym
from symx.tensor import SymTensor

import agilerl.components.replay_buffer as rb_mod
import agilerl.components.multi_agent_replay_buffer as marb_mod
import agilerl.utils.algo_utils as au
from agilerl.components.replay_buffer import ReplayBuffer
from agilerl.components.multi_agent_replay_buffer import MultiAgentReplayBuffer

PROPERTY = "C09"
FIELDS = (("obs", 2), ("action", 1), ("reward", 1), ("next_obs", 2), ("done", 1))


NESTED = {"flat": None, "dict": ("img", "vec"), "tuple": ("0", "1")}     # dict / tuple observations are nested TensorDicts


def mk_rows(v, name, nrows, obs_kind="flat"):
    d = {}
    for f, w in FIELDS:
        if f in ("obs", "next_obs") and obs_kind != "flat":
            k0, k1 = NESTED[obs_kind]
            d[f] = TensorDict({k0: v.tensor(f"{name}_{f}_{k0}", (nrows, 1, 2)), k1: v.tensor(f"{name}_{f}_{k1}", (nrows, w))}, batch_size=[nrows])
        else:
            d[f] = v.tensor(f"{name}_{f}", (nrows, w))
    return TensorDict(d, batch_size=[nrows])


def row_vals(td, i):
    out = []
    for f, _ in FIELDS:
        x = td[f]
        if isinstance(x, TensorDict):
            for k in sorted(x.keys()):
                out += elems(x[k][i])
        else:
            out += elems(x[i])
    return out


class RingStep(Case):
    """One add() from an arbitrary valid ring state (covers histories of every length by induction)."""
    functions = (ReplayBuffer.add, ReplayBuffer.__len__)
    assumptions = ("pre-state satisfies the ring invariant: cursor = count mod N, size = min(N, count), count >= 1 (storage initialised), "
                   "lifetime counter = count + rows added before the last clear() (>= 0)",)
    outside = ("tensordict's own tensorisation of dict/tuple observations",)
    site = "ReplayBuffer.add"

    def __init__(self, N, n, obs_kind="flat"):
        self.N, self.n, self.obs_kind = N, n, obs_kind
        self.name = f"ring-step-N{N}-n{n}" + ("" if obs_kind == "flat" else f"-{obs_kind}-obs")
        self.bounds = {"capacity": N, "rows_added": n, "observations": obs_kind, "symbolic": "count (hence cursor and size), all stored contents, all new contents"}

    def run(self, v):
        N, n = self.N, self.n
        buf = ReplayBuffer(N)
        require(buf, "_cursor", "_size", "_storage", "counter", "initialized", "max_size")
        c = v.int("count")
        v.assume(c >= 1)
        pre = mk_rows(v, "pre", N, self.obs_kind)
        pre_vals = [row_vals(pre, i) for i in range(N)]
        buf._storage = pre
        buf.initialized = True
        buf._cursor = c % N
        buf._size = ite(c >= N, N, c)
        # `counter` is a lifetime count that clear() does not reset: any value >= count is reachable
        # (add k rows, clear(), add count rows)
        before_clear = v.int("added_before_last_clear")
        v.assume(before_clear >= 0)
        buf.counter = c + before_clear
        new = mk_rows(v, "new", n, self.obs_kind)
        new_vals = [row_vals(new, k) for k in range(n)]
        buf.add(new)
        obs = []
        st = buf.storage
        for i in range(N):
            exp = pre_vals[i]
            for k in range(n):
                hit = eq((c + k) % N, i)
                exp = [ite(hit, a, b) for a, b in zip(new_vals[k], exp)]
            obs.append(Ob(f"row{i}/holds-latest-transition-with-all-fields", conj(*[eq(a, b) for a, b in zip(row_vals(st, i), exp)])))
        obs.append(Ob("cursor", eq(buf._cursor, (c + n) % N)))
        newsize = ite(c + n >= N, N, c + n)
        obs.append(Ob("len", eq(len_of(buf), newsize)))
        obs.append(Ob("counter", eq(buf.counter, c + before_clear + n)))
        if N > 1:
            obs.append(Ob("twin/cursor-off-by-one", eq(buf._cursor, (c + n + 1) % N), expect="sat"))
        return obs


def len_of(buf):
    # len() insists on a Python int; the method itself is what the repo defines
    return type(buf).__len__(buf)


class RingBase(Case):
    """First add on an empty buffer (real _init path), then a second add that wraps."""
    functions = (ReplayBuffer.add, ReplayBuffer._init, ReplayBuffer.clear)
    site = "ReplayBuffer.add/init"

    def __init__(self, N, n1, n2):
        self.N, self.n1, self.n2 = N, n1, n2
        self.name = f"ring-base-N{N}-{n1}+{n2}"
        self.bounds = {"capacity": N, "adds": [n1, n2], "symbolic": "all contents"}

    def run(self, v):
        N = self.N
        buf = ReplayBuffer(N)
        obs = []
        allrows = []
        total = 0
        for a, n in enumerate((self.n1, self.n2)):
            td = TensorDict({"obs": v.tensor(f"a{a}_obs", (n, 2)), "action": v.tensor(f"a{a}_action", (n,)),
                             "reward": v.tensor(f"a{a}_reward", (n,)), "next_obs": v.tensor(f"a{a}_next_obs", (n, 2)),
                             "done": v.tensor(f"a{a}_done", (n,))}, batch_size=[n])
            rows = [[*elems(td["obs"][k]), val(td["action"], k), val(td["reward"], k), *elems(td["next_obs"][k]), val(td["done"], k)] for k in range(n)]
            buf.add(td)
            allrows += rows
            total += n
            obs.append(Ob(f"after-add{a}/len", len(buf) == min(N, total)))
        st = buf.storage
        for j in range(max(0, total - N), total):
            i = j % N
            obs.append(Ob(f"transition{j}-at-row{i}", conj(*[eq(a, b) for a, b in zip(row_vals(st, i), allrows[j])])))
        buf.clear()
        obs.append(Ob("clear/empty", len(buf) == 0 and buf._cursor == 0 and buf._storage is None))
        # life goes on after clear(): the next add starts a fresh ring
        n3 = self.n1
        td = TensorDict({"obs": v.tensor("c_obs", (n3, 2)), "action": v.tensor("c_action", (n3,)),
                         "reward": v.tensor("c_reward", (n3,)), "next_obs": v.tensor("c_next_obs", (n3, 2)),
                         "done": v.tensor("c_done", (n3,))}, batch_size=[n3])
        rows = [[*elems(td["obs"][k]), val(td["action"], k), val(td["reward"], k), *elems(td["next_obs"][k]), val(td["done"], k)] for k in range(n3)]
        buf.add(td)
        obs.append(Ob("after-clear/len", len(buf) == min(N, n3), site="ReplayBuffer.add/after-clear"))
        st = buf.storage
        for k in range(n3):
            obs.append(Ob(f"after-clear/transition{k}-at-row{k}", conj(*[eq(a, b) for a, b in zip(row_vals(st, k), rows[k])]),
                          site="ReplayBuffer.add/after-clear"))
        return obs


class UniformSample(Case):
    functions = (ReplayBuffer.sample,)
    stubs = ("torch.randperm in agilerl.components.replay_buffer -> an arbitrary permutation of range(size) (pairwise distinct symbolic ints in range)",)
    site = "ReplayBuffer.sample"

    def __init__(self, N, B):
        self.N, self.B = N, B
        self.name = f"sample-N{N}-B{B}"
        self.bounds = {"capacity": N, "batch": B, "symbolic": "size in [B, N], contents, the permutation drawn"}

    def run(self, v):
        N, B = self.N, self.B
        buf = ReplayBuffer(N)
        size = v.int("size")
        v.assume(conj(size >= B, size <= N))
        pre = mk_rows(v, "pre", N)
        pre_vals = [row_vals(pre, i) for i in range(N)]
        buf._storage = pre
        buf.initialized = True
        buf._size = size
        buf._cursor = size % N
        drawn = {}

        def randperm(n, *a, **k):
            n = int(n) if not isinstance(n, Sym) else n.__index__()
            p = v.tensor("perm", (n,), "int")
            xs = elems(p)
            for i, x in enumerate(xs):
                v.assume(conj(x >= 0, x < n))
                for y in xs[:i]:
                    v.assume(neg(eq(x, y)) if v.mode == "sym" else x != y)
            drawn["perm"] = p
            drawn["n"] = n
            return p

        with patched((rb_mod, "torch", ShimTorch({"randperm": randperm}))):
            batch = buf.sample(B, return_idx=True)
        obs = []
        if "n" in drawn:       # (an implementation need not draw a permutation; what it hands out is judged below)
            obs.append(Ob("permutation-over-live-rows-only", eq(drawn["n"], size)))
        idxs = [val(batch["idxs"], k) for k in range(B)]
        got = [row_vals(batch, k) for k in range(B)]
        for k in range(B):
            live = conj(idxs[k] >= 0, idxs[k] < size)
            obs.append(Ob(f"sample{k}/index-is-stored", live))
            # the row handed out is, field by field, the stored row at that index
            exp = pre_vals[0]
            for i in range(1, N):
                exp = [ite(eq(idxs[k], i), a, b) for a, b in zip(pre_vals[i], exp)]
            obs.append(Ob(f"sample{k}/fields-belong-together", conj(*[eq(a, b) for a, b in zip(got[k], exp)])))
            for k2 in range(k):
                obs.append(Ob(f"sample{k}-vs-{k2}/no-duplicate", neg(eq(idxs[k], idxs[k2]))))
        # a later add must not alter the batch already handed out
        snapshot = [list(g) for g in got]
        buf.add(mk_rows(v, "later", N))
        after = [row_vals(batch, k) for k in range(B)]
        obs.append(Ob("batch-not-aliased-to-storage", conj(*[eq(a, b) for ra, rb in zip(after, snapshot) for a, b in zip(ra, rb)])))
        return obs


class MultiAgent(Case):
    functions = (MultiAgentReplayBuffer.save_to_memory, MultiAgentReplayBuffer.save_to_memory_vect_envs,
                 MultiAgentReplayBuffer.save_to_memory_single_env, MultiAgentReplayBuffer._reorganize_dicts,
                 MultiAgentReplayBuffer._add, MultiAgentReplayBuffer._process_transition,
                 MultiAgentReplayBuffer.stack_transitions, MultiAgentReplayBuffer.sample, MultiAgentReplayBuffer.__len__)
    stubs = ("random.sample in agilerl.components.multi_agent_replay_buffer -> k pairwise distinct symbolic positions",
             "agilerl.utils.algo_utils.torch -> ShimTorch (sym modes)")
    assumptions = ("done flags are 0/1",)
    site = "MultiAgentReplayBuffer"

    def __init__(self, N, pre, w, A=2, B=2, vect=True, mixed=False, resample=False):
        self.N, self.pre, self.w, self.A, self.B, self.vect, self.mixed, self.resample = N, pre, w, A, B, vect, mixed, resample
        self.name = f"marb-N{N}-pre{pre}-w{w}-A{A}-B{B}" + ("" if vect else "-single") + ("-mixed-key-order" if mixed else "") + ("-sample-add-sample" if resample else "")
        self.bounds = {"capacity": N, "single_saves_before": pre, "vectorised_width": w, "agents": A, "batch": B,
                       "symbolic": "payload of every (transition, field, agent); sampled positions"}

    def run(self, v):
        N, A, B = self.N, self.A, self.B
        ids = [f"agent_{i}" for i in range(A)]
        fields = ["state", "action", "reward", "next_state", "done"]
        buf = MultiAgentReplayBuffer(N, fields, ids)
        require(buf, "memory")
        log = []   # per stored transition: {field: {agent: [scalars]}}

        def payload(tag, vec_w=None):
            out = {}
            for f in fields:
                out[f] = {}
                # the dicts of different fields need not list the agents in the same order (observations come from the
                # environment, actions from the algorithm)
                for a in (list(reversed(ids)) if self.mixed and f in ("action", "reward", "done") else ids):
                    kind = "flag" if f == "done" else "real"
                    width = 2 if f in ("state", "next_state") else None
                    if vec_w is None:
                        shp = (width,) if width else ()
                    else:
                        shp = (vec_w, width) if width else (vec_w,)
                    out[f][a] = v.array(f"{tag}_{f}_{a}", shp, kind)
            return out

        pos = []

        class R:
            @staticmethod
            def sample(population, k):
                pop = list(population)
                if k != len(pos):
                    raise HarnessError("unexpected k")
                return [pop[int(p) if not isinstance(p, Sym) else p.__index__()] for p in pos]

        patches = [(marb_mod, "random", R)]
        if v.mode != "real":
            patches += [(au, "torch", ShimTorch()), (marb_mod, "np", ShimNumpy())]
        with patched(*patches):
            return self._body(v, buf, ids, fields, payload, log, pos)

    def _body(self, v, buf, ids, fields, payload, log, pos):
        N, B = self.N, self.B
        for t in range(self.pre):
            p = payload(f"s{t}")
            buf.save_to_memory(*[p[f] for f in fields], is_vectorised=False)
            log.append({f: {a: elems(p[f][a]) for a in ids} for f in fields})
        if self.w:
            p = payload("vec", self.w)
            buf.save_to_memory(*[p[f] for f in fields], is_vectorised=True)
            for i in range(self.w):
                log.append({f: {a: elems(p[f][a][i]) for a in ids} for f in fields})
        total = len(log)
        kept = log[max(0, total - N):]
        obs = [Ob("len", len(buf) == min(N, total))]
        B = min(B, len(kept))
        pos += [v.int(f"pos{k}") for k in range(B)]
        for k, x in enumerate(pos):
            v.assume(conj(x >= 0, x < len(kept)))
            for y in pos[:k]:
                v.assume(neg(eq(x, y)) if v.mode == "sym" else x != y)

        out = buf.sample(B)
        obs.append(Ob("sample/one-entry-per-field", len(out) == len(fields)))
        for fi, f in enumerate(fields):
            for a in ids:
                ten = out[fi][a]
                obs.append(Ob(f"sample/{f}/{a}/batch-rows", ten.shape[0] == B))
                for k in range(B):
                    # row k of every field and every agent must be the payload of the SAME stored transition pos[k]
                    exp = kept[0][f][a]
                    for j in range(1, len(kept)):
                        exp = [ite(eq(pos[k], j), x, y) for x, y in zip(kept[j][f][a], exp)]
                    obs.append(Ob(f"sample/{f}/{a}/row{k}-is-transition-pos{k}", all_eq(ten[k], exp)))
        if self.resample:
            # a later addition, then a second sample: it draws from what the buffer holds NOW (the last N), not from an earlier view
            p = payload("late")
            buf.save_to_memory(*[p[f] for f in fields], is_vectorised=False)
            log.append({f: {a: elems(p[f][a]) for a in ids} for f in fields})
            kept2 = log[max(0, len(log) - N):]
            obs.append(Ob("second/len", len(buf) == min(N, len(log))))
            del pos[:]
            pos += [v.int(f"pos2_{k}") for k in range(B)]
            for k, x in enumerate(pos):
                v.assume(conj(x >= 0, x < len(kept2)))
                for y in pos[:k]:
                    v.assume(neg(eq(x, y)) if v.mode == "sym" else x != y)
            out2 = buf.sample(B)
            for fi, f in enumerate(fields):
                for a in ids:
                    ten = out2[fi][a]
                    for k in range(B):
                        exp = kept2[0][f][a]
                        for j in range(1, len(kept2)):
                            exp = [ite(eq(pos[k], j), x, y) for x, y in zip(kept2[j][f][a], exp)]
                        obs.append(Ob(f"second-sample/{f}/{a}/row{k}-is-a-transition-held-now", all_eq(ten[k], exp), site=self.site + "/sample-after-later-additions"))
        return obs


class TransitionBuild(Case):
    """Transition(...).to_tensordict() for vector, dict and tuple observations - the row the training loops hand to
    ReplayBuffer.add: every field is the field it was built from (next_obs is not obs)"""
    stubs = ("agilerl.utils.algo_utils.torch -> ShimTorch (sym modes)",)
    site = "Transition.__post_init__"

    def __init__(self, kind):
        from agilerl.components.data import Transition
        self.kind = kind
        self.functions = (Transition.__post_init__,)
        self.name = f"transition-build-{kind}-obs"
        self.bounds = {"observation": kind, "symbolic": "every element of obs, next_obs, action, reward; the done flag"}

    def run(self, v):
        from agilerl.components.data import Transition
        import agilerl.components.data as data_mod
        import agilerl.utils.algo_utils as au_

        def ob(tag):
            # (observation components as tensors: TensorDict keeps numpy OBJECT arrays as opaque non-tensor data)
            if self.kind == "vector":
                return v.tensor(f"{tag}", (2,))
            if self.kind == "dict":
                return {"vec": v.tensor(f"{tag}_vec", (2,)), "img": v.tensor(f"{tag}_img", (1, 2))}
            return (v.tensor(f"{tag}_0", (2,)), v.tensor(f"{tag}_1", (1,)))

        o, no = ob("obs"), ob("next")
        act, rew, done = v.array("act", (1,)), v.real("rew"), v.flag("done")
        patches = []
        if v.mode != "real":
            patches = [(au_, "torch", ShimTorch()), (data_mod, "torch", ShimTorch())] if hasattr(data_mod, "torch") else [(au_, "torch", ShimTorch())]
        with patched(*patches):
            tr = Transition(obs=o, action=act, next_obs=no, reward=np.float32(rew) if v.mode == "real" else rew, done=done)
            out = tr.to_tensordict().unsqueeze(0)          # what the training loops hand to ReplayBuffer.add (the ring step is the ring-* cases' subject)
            out.batch_size = [1]

        def flat(x):
            if isinstance(x, dict):
                return [e for k in sorted(x) for e in elems(x[k])]
            if isinstance(x, tuple):
                return [e for y in x for e in elems(y)]
            return list(elems(x))

        def flat_td(x):
            if hasattr(x, "keys") and not isinstance(x, (torch.Tensor,)):
                return [e for k in sorted(x.keys()) for e in elems(x[k][0])]
            return list(elems(x[0]))

        res = []
        for name, src in (("obs", o), ("next_obs", no)):
            got, want = flat_td(out[name]), flat(src)
            res.append(Ob(f"{name}/stored-and-sampled-as-built", len(got) == len(want) and conj(*[eq(a, b) for a, b in zip(got, want)]), site=self.site + "/" + name))
        res.append(Ob("action-reward-done/stored-and-sampled-as-built", conj(eq(elems(out["action"][0])[0], act[0]), eq(elems(out["reward"][0])[0], rew), eq(elems(out["done"][0])[0], done)), site=self.site))
        return res


def cases(tier):
    cs = [RingStep(3, 1), RingStep(3, 2), RingStep(4, 3), RingStep(4, 4), RingStep(1, 1), RingStep(5, 2),
          RingStep(3, 2, "dict"), RingStep(4, 3, "tuple"),
          RingBase(3, 2, 2), RingBase(4, 1, 4), RingBase(2, 2, 1),
          UniformSample(3, 2), UniformSample(4, 2),
          MultiAgent(3, 2, 2), MultiAgent(4, 1, 2), MultiAgent(2, 3, 0, vect=False), MultiAgent(3, 0, 3, A=3),
          MultiAgent(3, 1, 2, mixed=True), MultiAgent(2, 2, 0, vect=False, mixed=True), MultiAgent(2, 2, 0, vect=False, resample=True),
          TransitionBuild("vector"), TransitionBuild("dict"), TransitionBuild("tuple")]
    if tier == "thorough":
        cs += [RingStep(N, n) for N in (6, 8, 12) for n in (1, 2, N - 1, N)]
        cs += [RingBase(6, 4, 5), UniformSample(5, 3), UniformSample(6, 2), MultiAgent(4, 3, 3, A=3, B=3), MultiAgent(4, 1, 3, A=3, B=2, mixed=True), MultiAgent(3, 1, 2, resample=True)]
    return cs
