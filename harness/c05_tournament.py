"""C05 — tournament selection keeps the fittest and builds a well-formed generation.

Real code executed: TournamentSelection._elitism, _tournament, select.
Symbolic: every fitness entry of every agent, the agents' indices, every np.random.randint draw.
Concrete, enumerated: population size, new population size, tournament size, evaluation window, history lengths
(also shorter than the window and unequal), elitism flag.
"""
from __future__ import annotations

import numpy as np

from .common import *   # noqa: F401,F403
from .common import Case, Ob, require, val, elems, eq, le, lt, ge, gt, conj, disj, neg, all_eq, HarnessError, patched, ShimNumpy
from symx.core import ite, Sym

import agilerl.hpo.tournament as t_mod
from agilerl.hpo.tournament import TournamentSelection

PROPERTY = "C05"


class StubAgent:
    """record standing in for an agent: clone() returns a tagged child (faithfulness of real clones is C01)"""

    def __init__(self, fitness, index, origin=None, log=None):
        self.fitness = fitness
        self.index = index
        self.origin = origin if origin is not None else self
        self.log = log if log is not None else []

    def clone(self, index=None, wrap=True):
        child = StubAgent(list(self.fitness), self.index if index is None else index, origin=self.origin, log=self.log)
        self.log.append((self, child, index, wrap))
        return child


def mean_last(xs, w):
    ys = xs[-w:]
    return sum(ys[1:], ys[0]) / len(ys)


class Tournament(Case):
    functions = (TournamentSelection.select, TournamentSelection._elitism, TournamentSelection._tournament)
    stubs = ("agents = records with fitness/index and a clone(index, wrap) that returns a tagged child",
             "np.random.randint of agilerl.hpo.tournament -> arbitrary integers in [low, high)")
    assumptions = ("agent indices are pairwise distinct non-negative integers (re-established by the check: induction over generations)",
                   "every agent has at least one fitness entry")
    outside = ("faithfulness / independence of the real clone() (C01)",)
    site = "TournamentSelection.select"

    def __init__(self, hist, k, window, elitism, new_size=None, sym_index=False, concrete_draws=False):
        self.concrete_draws = concrete_draws
        self.sym_index = sym_index
        self.hist, self.k, self.window, self.elitism = tuple(hist), k, window, elitism
        self.P = len(hist)
        self.new_size = new_size or self.P
        self.name = f"tournament-pop{self.P}-hist{'.'.join(map(str, hist))}-k{k}-w{window}-{'elite' if elitism else 'noelite'}-new{self.new_size}" + ("-symidx" if sym_index else "") + ("-draws-decided-up-front" if concrete_draws else "")
        self.bounds = {"population": self.P, "new_population": self.new_size, "tournament_size": k, "eval_loop": window, "elitism": elitism,
                       "history_lengths": list(hist),
                       "symbolic": "all fitness entries, every randint draw" + (", agent indices" if sym_index else "; agent indices fixed, distinct, unordered")}

    def run(self, v):
        P, k, w = self.P, self.k, self.window
        case = self
        log = []
        fit = [[v.real(f"f{i}_{j}") for j in range(n)] for i, n in enumerate(self.hist)]
        if self.sym_index:
            idx = [v.int(f"index{i}") for i in range(P)]
            for i in range(P):
                v.assume(idx[i] >= 0)
                for j in range(i):
                    v.assume(neg(eq(idx[i], idx[j])))
        else:
            idx = [4, 9, 6, 2, 11][:P]
        pop = [StubAgent(list(fit[i]), idx[i], log=log) for i in range(P)]
        pop_before = list(pop)
        draws = []

        class Rnd:
            @staticmethod
            def randint(low, high=None, size=None):
                if high is None:
                    low, high = 0, low
                n = size if isinstance(size, int) else int(np.prod(size))
                out = np.empty(n, dtype=object)
                for j in range(n):
                    d = v.int("draw")
                    v.assume(conj(d >= low, d < high))
                    out[j] = d.__index__() if (case.concrete_draws and isinstance(d, Sym)) else d      # decided by forking: usable as a numpy index
                draws.append(list(out))
                return out if (v.mode != "real" and not case.concrete_draws) else out.astype(np.int64)

        ts = TournamentSelection(k, self.elitism, self.new_size, w)
        with patched((t_mod, "np", ShimNumpy({"random": Rnd}))):
            elite, new_pop = ts.select(pop)
        means = [mean_last(fit[i], w) for i in range(P)]
        obs = []
        ei = pop_before.index(elite.origin) if elite.origin in pop_before else None
        obs.append(Ob("elite-is-a-copy-of-a-member", ei is not None))
        if ei is None:
            return obs
        obs.append(Ob("elite-has-maximal-mean-of-last-eval-scores", conj(*[ge(means[ei], means[j]) for j in range(P)]), site="TournamentSelection._elitism"))
        if P > 1:
            obs.append(Ob("twin/elite-has-minimal-mean", conj(*[le(means[ei], means[j]) for j in range(P)]), expect="sat"))
        obs.append(Ob("elite-is-a-new-object", all(elite is not a for a in pop_before)))
        obs.append(Ob("new-population-has-the-configured-size", len(new_pop) == self.new_size))
        if len(new_pop) != self.new_size:
            return obs
        rest = new_pop
        if self.elitism:
            obs.append(Ob("with-elitism-first-member-is-the-elite", new_pop[0].origin is elite.origin and new_pop[0] is not elite.origin))
            rest = new_pop[1:]
        obs.append(Ob("one-tournament-per-remaining-member", len(draws) == len(rest) and all(len(d) == k for d in draws)))
        if len(draws) != len(rest):
            return obs
        max_old = idx[0]
        for x in idx[1:]:
            max_old = ite(x > max_old, x, max_old) if isinstance(x, Sym) or isinstance(max_old, Sym) else max(x, max_old)
        for t, child in enumerate(rest):
            pi = pop_before.index(child.origin) if child.origin in pop_before else None
            obs.append(Ob(f"child{t}/parent-is-a-member", pi is not None and child not in pop_before))
            if pi is None:
                continue
            drawn_is_parent = disj(*[eq(d, pi) for d in draws[t]])
            obs.append(Ob(f"child{t}/parent-was-drawn-for-its-tournament", drawn_is_parent, site="TournamentSelection._tournament"))
            best = conj(*[disj(neg(eq(d, j)), ge(means[pi], means[j])) for d in draws[t] for j in range(P)])
            obs.append(Ob(f"child{t}/parent-is-best-ranked-among-the-drawn", best, site="TournamentSelection._tournament"))
            obs.append(Ob(f"child{t}/index-is-fresh", gt(child.index, max_old), site="TournamentSelection.select/indices"))
            for t2 in range(t):
                obs.append(Ob(f"child{t}-vs-child{t2}/distinct-indices", neg(eq(child.index, rest[t2].index)), site="TournamentSelection.select/indices"))
            if self.elitism:
                obs.append(Ob(f"child{t}/index-differs-from-elite's", neg(eq(child.index, new_pop[0].index)), site="TournamentSelection.select/indices"))
        if rest and P > 1 and k > 1:
            t = 0
            pi = pop_before.index(rest[0].origin) if rest[0].origin in pop_before else 0
            obs.append(Ob("twin/child0-parent-is-worst-among-the-drawn",
                          conj(*[disj(neg(eq(d, j)), le(means[pi], means[j])) for d in draws[t] for j in range(P)]), expect="sat"))
        # the old population is left untouched
        same = len(pop) == P and all(a is b for a, b in zip(pop, pop_before))
        obs.append(Ob("old-population-list-unchanged", same))
        for i, a in enumerate(pop_before):
            obs.append(Ob(f"agent{i}/fitness-history-and-index-unchanged",
                          conj(len(a.fitness) == len(fit[i]), *[eq(x, y) for x, y in zip(a.fitness, fit[i])], eq(a.index, idx[i]))))
        return obs


def cases(tier):
    # paths = orderings of the mean fitnesses x P^(draws) (x orderings of symbolic indices): keep draws <= 4 in the quick tier
    cs = [Tournament((2, 2, 2), 2, 2, True), Tournament((1, 3, 2), 2, 2, False, new_size=2),
          Tournament((2, 1), 2, 3, True, new_size=3, sym_index=True), Tournament((3,), 2, 2, True, new_size=2, sym_index=True),
          Tournament((2, 2, 2), 3, 1, True, new_size=2), Tournament((1, 1), 1, 1, False, new_size=3, sym_index=True),
          # the draws decided up front (an implementation may use them as numpy indices)
          Tournament((1, 2), 2, 1, True, new_size=2, concrete_draws=True), Tournament((1, 1, 2), 2, 2, False, new_size=1, concrete_draws=True)]
    if tier == "thorough":
        cs += [Tournament((2, 3, 1, 2), 2, 2, True, new_size=3), Tournament((3, 3, 3), 2, 3, False, new_size=3),
               Tournament((1, 2, 3), 3, 2, True, new_size=3), Tournament((2, 2, 2), 2, 2, True, sym_index=True)]
    return cs
