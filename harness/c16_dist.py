"""C16 — stochastic policies report the log-probability and entropy of the action they return.

Real code executed: EvolvableDistribution.forward / get_distribution / apply_mask / log_prob / entropy,
TorchDistribution.sample / log_prob / entropy, the four handlers (Normal, Bernoulli, Categorical, MultiCategorical),
StochasticActor.forward / scale_action / action_log_prob, on a real StochasticActor whose head returns symbolic logits.

Abstraction: torch.distributions.{Normal, Categorical, Bernoulli} are the trusted base.  In agilerl.networks.distributions
they are replaced by subclasses whose sample() returns fresh symbols in the support and whose per-component log_prob /
entropy are UNINTERPRETED functions of (parameters, value) (replay/validation: the real classes with the sample fixed by the
model).  What is decided is the repository's composition: which parameters and which value every density is evaluated at,
what is summed over which axis, the mask, the tanh correction, and what a later re-evaluation uses.
"""
from __future__ import annotations

import math

import numpy as np
import torch
from gymnasium import spaces
from torch.distributions import Bernoulli, Categorical, Normal

from .common import *   # noqa: F401,F403
from .common import Case, Ob, require, val, elems, eq, le, lt, ge, gt, conj, disj, neg, all_eq, HarnessError, patched, ShimTorch
from symx.core import ite, Sym, uf_apply
from symx import core
from symx.tensor import SymTensor, mk, _filled, E

import agilerl.networks.distributions as dist_mod
from agilerl.networks.distributions import EvolvableDistribution, TorchDistribution
from agilerl.networks.actors import StochasticActor

PROPERTY = "C16"
MASKED = -1e8

# concrete evaluation of the uninterpreted symbols (pconst mode)
def _softplus(z):
    return max(z, 0.0) + math.log1p(math.exp(-abs(z)))


core._UF_CONCRETE.update({
    "norm_lp": lambda mu, s, x: -((x - mu) ** 2) / (2 * s * s) - math.log(s) - 0.5 * math.log(2 * math.pi),
    "norm_H": lambda s: 0.5 + 0.5 * math.log(2 * math.pi) + math.log(s),
    "bern_lp": lambda l, x: -_softplus(-l) if x >= 0.5 else -_softplus(l),
    "bern_H": lambda l: _softplus(-abs(l)) + abs(l) * (math.exp(-abs(l)) / (1 + math.exp(-abs(l)))),
})


def _logsumexp(ls):
    m = max(ls)
    return m + math.log(sum(math.exp(l - m) for l in ls))


def cat_lp_c(*a):
    ls, k = a[:-1], int(round(a[-1]))
    return ls[k] - _logsumexp(ls)


def cat_H_c(*ls):
    z = _logsumexp(ls)
    return -sum(math.exp(l - z) * (l - z) for l in ls if l - z > -700)


for _n in range(1, 6):
    core._UF_CONCRETE[f"cat_lp{_n}"] = cat_lp_c
    core._UF_CONCRETE[f"cat_H{_n}"] = cat_H_c


def UF(name, *args):
    """density / entropy symbol: uninterpreted in sym mode, the true value otherwise"""
    args = [(1e300 if a > 0 else -1e300) if isinstance(a, float) and math.isinf(a) else a for a in args]      # an infinite parameter: a distinct huge constant
    if any(isinstance(a, Sym) for a in args):
        return uf_apply(name, *args)
    return core._UF_CONCRETE[name](*[float(a) for a in args])


NONFINITE = []      # (distribution, what) recorded by the stand-ins of the current run


def make_dists(v):
    """stand-ins for Normal / Categorical / Bernoulli in agilerl.networks.distributions"""
    sym = v.mode != "real"
    del NONFINITE[:]

    class SNormal(Normal):
        def __init__(self, loc, scale, **k):
            if sym:
                self.loc, self.scale = loc, scale
            else:
                Normal.__init__(self, loc, scale)

        def sample(self, *a, **k):
            return v.tensor("u", tuple(self.loc.shape))

        def rsample(self, *a, **k):
            return self.sample()

        if sym:
            def log_prob(self, x):
                return mk(np.frompyfunc(lambda m, s, y: UF("norm_lp", m, s, y), 3, 1)(E(self.loc), E(self.scale), E(x)).astype(object), torch.float32)

            def entropy(self):
                return mk(np.frompyfunc(lambda s: UF("norm_H", s), 1, 1)(np.broadcast_to(E(self.scale), tuple(self.loc.shape))).astype(object), torch.float32)

    class SCategorical(Categorical):
        def __init__(self, probs=None, logits=None, **k):
            if sym:
                self.logits_in = logits
            else:
                Categorical.__init__(self, logits=logits)
                self.logits_in = logits

        def sample(self, *a, **k):
            B, n = self.logits_in.shape
            t = v.tensor("cat", (B,), "int")
            for b in range(B):
                x = val(t, b)
                v.assume(conj(x >= 0, x < n), "Categorical.sample() returns a category index")
                # contract of the trusted base: a category whose logit is the masking constant has probability 0
                # (float underflow of exp(-1e8 - logsumexp)) unless every category is masked
                ls = [val(self.logits_in, b, j) for j in range(n)]
                some_open = disj(*[gt(l, MASKED) for l in ls])
                for j in range(n):
                    v.assume(disj(neg(some_open), neg(eq(x, j)), gt(ls[j], MASKED)), "Categorical never samples a category whose logit is -1e8 while another is larger")
            return t

        if sym:
            def log_prob(self, x):
                B, n = self.logits_in.shape
                out = np.empty((B,), dtype=object)
                for b in range(B):
                    out[b] = UF(f"cat_lp{n}", *[val(self.logits_in, b, j) for j in range(n)], val(x, b))
                return mk(out, torch.float32)

            def entropy(self):
                B, n = self.logits_in.shape
                out = np.empty((B,), dtype=object)
                for b in range(B):
                    out[b] = UF(f"cat_H{n}", *[val(self.logits_in, b, j) for j in range(n)])
                return mk(out, torch.float32)

    class SBernoulli(Bernoulli):
        def __init__(self, probs=None, logits=None, **k):
            if sym:
                self.logits_in = logits
            else:
                Bernoulli.__init__(self, logits=logits)
                self.logits_in = logits
            # torch's Bernoulli wants real-valued logits: log_prob(0) and entropy() of an infinite logit are NaN
            if any((not isinstance(x, Sym)) and not math.isfinite(float(x)) for x in elems(logits)):
                NONFINITE.append(("Bernoulli", "logits"))

        def sample(self, *a, **k):
            t = v.tensor("bern", tuple(self.logits_in.shape), "flag", dtype=v.float_dtype)
            for x, l in zip(elems(t), elems(self.logits_in)):
                v.assume(disj(gt(l, MASKED), eq(x, 0)), "Bernoulli never samples 1 for a bit whose logit is -1e8 (or below)")
            return t

        if sym:
            def log_prob(self, x):
                return mk(np.frompyfunc(lambda l, y: UF("bern_lp", l, y), 2, 1)(E(self.logits_in), E(x)).astype(object), torch.float32)

            def entropy(self):
                return mk(np.frompyfunc(lambda l: UF("bern_H", l), 1, 1)(E(self.logits_in)).astype(object), torch.float32)

    return SNormal, SCategorical, SBernoulli


def handlers_for(SNormal, SCategorical, SBernoulli):
    h = TorchDistribution._handlers
    return {SNormal: h[Normal], SBernoulli: h[Bernoulli], SCategorical: h[Categorical], list: h[list]}


SPACES = {
    "discrete3": spaces.Discrete(3),
    "multidiscrete23": spaces.MultiDiscrete([2, 3]),
    "multibinary3": spaces.MultiBinary(3),
    "box2": spaces.Box(np.array([-1.0, 0.5], dtype=np.float32), np.array([2.0, 0.75], dtype=np.float32)),
    "box1": spaces.Box(-2.0, 2.0, (1,)),
}


class DistCase(Case):
    functions = (EvolvableDistribution.forward, EvolvableDistribution.get_distribution, EvolvableDistribution.apply_mask, EvolvableDistribution.log_prob,
                 EvolvableDistribution.entropy, TorchDistribution.sample, TorchDistribution.log_prob, TorchDistribution.entropy,
                 StochasticActor.forward, StochasticActor.scale_action, StochasticActor.action_log_prob)
    stubs = ("actor.extract_features = identity stub; head network forward = stub returning symbolic logits",
             "Normal / Categorical / Bernoulli of agilerl.networks.distributions -> subclasses with uninterpreted log_prob/entropy and samples that are fresh symbols "
             "in the support (sym modes); the real classes with the sample fixed by the model (replay/validation)",
             "tanh, log, exp: uninterpreted with range/monotonicity axioms")
    assumptions = ("|logits| < 1e7 (a legal logit is larger than the masking constant -1e8)", "mask entries 0/1, at least one legal action per categorical component")
    outside = ("torch.distributions' own densities and samplers (trusted base)", "that masked categories have probability exactly 0 (float underflow of exp(-1e8); the check decides that "
               "masked logits are the masking constant and legal logits are unchanged)")

    def __init__(self, space, B=2, squash=False, masked=False, reeval=False, history="fresh"):
        self.space_name, self.B, self.squash, self.masked, self.reeval, self.history = space, B, squash, masked, reeval, history
        self.space = SPACES[space]
        self.name = f"dist-{space}-B{B}" + ("-squash" if squash else "") + ("-mask" if masked else "") + ("-reeval" if reeval else "") + ("" if history == "fresh" else f"-after-{history}")
        self.site = "EvolvableDistribution"
        self.bounds = {"action_space": str(self.space), "batch": B, "squash_output": squash, "mask": masked, "re-evaluation_after_a_second_forward": reeval, "actor_history": history,
                       "symbolic": "logits, samples, mask, (second forward: new logits and samples)"}
        self._actor = None

    def actor(self):
        if self._actor is None:
            try:
                self._actor = StochasticActor(spaces.Box(-1, 1, (2,)), self.space, encoder_config={"hidden_size": [2]}, head_config={"hidden_size": [2]},
                                              latent_dim=2, min_latent_dim=1, squash_output=self.squash, action_std_init=-0.5)
                # the policy head must keep its distribution settings when the network is rebuilt or copied
                if self.history == "recreate":
                    self._actor.recreate_network()
                elif self.history == "clone":
                    self._actor = self._actor.clone()
                elif self.history == "latent-mutation":
                    self._actor.add_latent_node(numb_new_nodes=1)
            except Exception as ex:   # noqa: BLE001
                raise HarnessError(f"could not build the actor: {type(ex).__name__}: {ex}")
        return self._actor

    def n_logits(self):
        return int(spaces.flatdim(self.space))

    def run(self, v):
        B, sp = self.B, self.space
        actor = self.actor()
        head = actor.head_net
        require(head, "wrapped", "dist", "apply_mask", "get_distribution")
        nl = self.n_logits()
        SN, SC, SB = make_dists(v)
        feats = v.tensor("latent", (B, 2))
        logit_list = []

        def head_forward(x, *a, **k):
            t = v.tensor("logits", (B, nl))
            for z in elems(t):
                v.assume(conj(z > -1e7, z < 1e7))
            logit_list.append(t)
            return t

        mask = None
        if self.masked:
            mask = v.array("mask", (B, nl), "flag")
            groups = [list(range(nl))] if isinstance(sp, spaces.Discrete) else ([[0, 1], [2, 3, 4]] if isinstance(sp, spaces.MultiDiscrete) else [])
            for b in range(B):
                for g in groups:
                    v.assume(disj(*[eq(mask[b, j], 1) for j in g]))
            if v.mode == "real":
                mask = mask.astype(np.float32)
        patches = [(dist_mod, "Normal", SN), (dist_mod, "Categorical", SC), (dist_mod, "Bernoulli", SB),
                   (TorchDistribution, "_handlers", handlers_for(SN, SC, SB)),
                   (actor, "extract_features", lambda o: o), (head.wrapped, "forward", head_forward)]
        if v.mode != "real":
            patches.append((dist_mod, "torch", ShimTorch()))
        with patched(*patches):
            action, logp, ent = actor.forward(feats, action_mask=mask)
            stored = action
            reeval_lp = None
            if self.reeval:
                action2, _, _ = actor.forward(v.tensor("latent2", (B, 2)))
                reeval_lp = actor.action_log_prob(stored)
        res = []
        logits = logit_list[0]
        sigma = [math.exp(-0.5)] * nl

        def mlogit(b, j):
            l = val(logits, b, j)
            if mask is None:
                return l
            m = mask[b, j]
            return ite(eq(m, 1), l, MASKED) if isinstance(m, Sym) else (l if m == 1 else MASKED)

        def lp_of(lg, act_row, b):
            """reference log-prob / entropy for row b under logits `lg` at the (raw) action components act_row"""
            if isinstance(sp, spaces.Discrete):
                ls = [lg(b, j) for j in range(nl)]
                return UF(f"cat_lp{nl}", *ls, act_row[0]), UF(f"cat_H{nl}", *ls)
            if isinstance(sp, spaces.MultiDiscrete):
                lp, h, o = 0, 0, 0
                for i, n in enumerate(sp.nvec):
                    ls = [lg(b, o + j) for j in range(int(n))]
                    lp, h, o = lp + UF(f"cat_lp{int(n)}", *ls, act_row[i]), h + UF(f"cat_H{int(n)}", *ls), o + int(n)
                return lp, h
            if isinstance(sp, spaces.MultiBinary):
                return sum(UF("bern_lp", lg(b, j), act_row[j]) for j in range(nl)), sum(UF("bern_H", lg(b, j)) for j in range(nl))
            return sum(UF("norm_lp", lg(b, j), sigma[j], act_row[j]) for j in range(nl)), sum(UF("norm_H", sigma[j]) for j in range(nl))

        res.append(Ob("distribution-parameters-are-finite-(log-prob-and-entropy-are-defined)", not NONFINITE, site=self.site + "/non-finite-parameters"))
        want_shape = (B,) if isinstance(sp, spaces.Discrete) else (B, nl if not isinstance(sp, spaces.MultiDiscrete) else len(sp.nvec))
        res.append(Ob("action-has-the-batch-shape-of-the-space", tuple(action.shape) == want_shape))
        res.append(Ob("log-prob-is-one-number-per-batch-row", tuple(logp.shape) == (B,), site=self.site + "/sum-over-components-not-batch"))
        if tuple(action.shape) != want_shape or tuple(logp.shape) != (B,):
            return res
        for b in range(B):
            arow = elems(action[b]) if action.dim() > 1 else [val(action, b)]
            if isinstance(sp, spaces.Box):
                # the raw sample u is the stand-in's symbol (real mode: the model's value), the action its image
                u = [v_ for v_ in self._u(v, 0, b, nl)]
                if self.squash:
                    t = [UF("tanh", x) if isinstance(x, Sym) else math.tanh(x) for x in u]
                    lo, hi = sp.low, sp.high
                    res.append(Ob(f"row{b}/action-is-tanh(sample)-scaled-affinely-into-the-box",
                                  conj(*[eq(arow[j], float(lo[j]) + 0.5 * (t[j] + 1) * (float(hi[j]) - float(lo[j]))) for j in range(nl)]), site=self.site + "/support"))
                    base, _ = lp_of(mlogit, u, b)
                    corr = sum((UF("log", 1 - t[j] * t[j] + 1e-6) if isinstance(t[j], Sym) else math.log(1 - t[j] * t[j] + 1e-6)) for j in range(nl))
                    res.append(Ob(f"row{b}/log-prob-is-the-density-of-the-raw-sample-minus-the-tanh-correction", eq(val(logp, b), base - corr), site=self.site + "/log-prob"))
                    res.append(Ob(f"row{b}/entropy-is-None-when-squashing", ent is None))
                else:
                    res.append(Ob(f"row{b}/action-is-the-sample", conj(*[eq(a, x) for a, x in zip(arow, u)]), site=self.site + "/support"))
                    lp, h = lp_of(mlogit, arow, b)
                    res.append(Ob(f"row{b}/log-prob-is-the-sum-of-component-densities-at-the-returned-action", eq(val(logp, b), lp), site=self.site + "/log-prob"))
                    res.append(Ob(f"row{b}/entropy-is-the-sum-of-component-entropies", ent is not None and eq(val(ent, b), h), site=self.site + "/entropy"))
            else:
                if isinstance(sp, spaces.Discrete):
                    res.append(Ob(f"row{b}/action-in-the-support", conj(arow[0] >= 0, arow[0] < nl), site=self.site + "/support"))
                    if mask is not None:
                        res.append(Ob(f"row{b}/masked-action-never-returned", disj(*[conj(eq(arow[0], j), eq(mask[b, j], 1)) for j in range(nl)]), site=self.site + "/mask"))
                elif isinstance(sp, spaces.MultiDiscrete):
                    o = 0
                    for i, n in enumerate(sp.nvec):
                        res.append(Ob(f"row{b}/component{i}-in-the-support", conj(arow[i] >= 0, arow[i] < int(n)), site=self.site + "/support"))
                        if mask is not None:
                            res.append(Ob(f"row{b}/component{i}/masked-action-never-returned", disj(*[conj(eq(arow[i], j), eq(mask[b, o + j], 1)) for j in range(int(n))]),
                                          site=self.site + "/mask"))
                        o += int(n)
                else:
                    res.append(Ob(f"row{b}/action-in-the-support", conj(*[disj(eq(a, 0), eq(a, 1)) for a in arow]), site=self.site + "/support"))
                    if mask is not None:
                        res.append(Ob(f"row{b}/masked-bit-never-set", conj(*[disj(eq(mask[b, j], 1), eq(arow[j], 0)) for j in range(nl)]), site=self.site + "/mask"))
                lp, h = lp_of(mlogit, arow, b)
                res.append(Ob(f"row{b}/log-prob-is-the-(sum-of)-component-log-probabilities-under-the-masked-logits-at-the-returned-action", eq(val(logp, b), lp),
                              site=self.site + "/log-prob"))
                res.append(Ob(f"row{b}/entropy-is-the-(sum-of)-component-entropies", ent is not None and eq(val(ent, b), h), site=self.site + "/entropy"))
            if self.reeval and reeval_lp is not None:
                lg2 = logit_list[1]
                stored_row = elems(stored[b]) if stored.dim() > 1 else [val(stored, b)]
                if self.squash:
                    # the pre-image of the stored action is the first forward's raw sample
                    u1 = self._u(v, 0, b, nl)
                    t1 = [UF("tanh", x) if isinstance(x, Sym) else math.tanh(x) for x in u1]
                    base, _ = lp_of(lambda bb, j: val(lg2, bb, j), u1, b)
                    res.append(Ob(f"row{b}/re-evaluating-the-stored-action-uses-ITS-pre-image-under-the-current-policy",
                                  tuple(reeval_lp.shape) == (B,) and eq(val(reeval_lp, b), base - sum((UF("log", 1 - x * x + 1e-6) if isinstance(x, Sym) else math.log(1 - x * x + 1e-6)) for x in
                                                                                                      ([2 * (s - float(sp.low[j])) / (float(sp.high[j]) - float(sp.low[j])) - 1 for j, s in enumerate(stored_row)] if False else t1))),
                                  site="TorchDistribution.log_prob/squash-reeval-uses-cached-sample"))
                else:
                    lp2, _ = lp_of(lambda bb, j: val(lg2, bb, j), stored_row, b)
                    res.append(Ob(f"row{b}/re-evaluating-the-stored-action-gives-its-log-prob-under-the-current-policy",
                                  tuple(reeval_lp.shape) == (B,) and eq(val(reeval_lp, b), lp2), site=self.site + "/re-evaluation"))
        if not self.squash and not isinstance(sp, spaces.Discrete):
            # sensitivity: summing over the batch instead of the components must be refutable
            res.append(Ob("twin/log-prob-of-row0-equals-log-prob-of-row1", eq(val(logp, 0), val(logp, B - 1)) if B > 1 else False, expect="sat"))
        return res

    def _u(self, v, k, b, nl):
        """the k-th raw Normal sample drawn in this run (sym: the symbols; concrete: the model's numbers)"""
        name = "u" if k == 0 else f"u#{k}"
        out = []
        for j in range(nl):
            key = f"{name}[{b}, {j}]"
            if v.mode == "sym":
                out.append(core.SReal(core.ctx().inputs[key]))
            else:
                x = v.model.get(key, 0)
                out.append(core.Q(x) if v.mode == "pconst" else float(x))
        return out


def as_array(v, rows):
    """nested lists of scalars -> numpy array in the representation of the current mode"""
    e = np.empty((len(rows), len(rows[0])), dtype=object)
    for i, r in enumerate(rows):
        for j, x in enumerate(r):
            e[i, j] = x
    return e.astype(np.int64) if v.mode == "real" else e


class IPPOMaskRouting(Case):
    """IPPO.get_action with per-agent action masks in `infos`: the mask row that reaches the shared policy for batch row r is
    the mask of the (agent, env) whose observation is row r"""
    stubs = ("actor / critic = stubs recording their inputs and returning fresh symbols",)
    assumptions = ("observation labels pairwise distinct (rows are identified by their observation)",)

    def __init__(self, A, E, arrays=False):
        from agilerl.algorithms.ippo import IPPO
        self.A, self.E, self.arrays = A, E, arrays
        self.functions = (IPPO.get_action, IPPO.extract_action_masks, IPPO.preprocess_observation)
        self.name = f"ippo-mask-routing-A{A}-E{E}" + ("-ndarray-masks" if arrays else "")
        self.exception_site = "IPPO.extract_action_masks/ndarray-masks" if arrays else None
        self.site = "IPPO.extract_action_masks/row-order"
        self.bounds = {"homogeneous_agents": A, "num_envs": E, "actions": 3, "symbolic": "observations, every mask entry"}
        self._agent = None

    def agent(self):
        from agilerl.algorithms.ippo import IPPO
        if self._agent is None:
            try:
                ids = [f"ag_{i}" for i in range(self.A)]
                self._agent = IPPO([spaces.Box(-1, 1, (2,))] * self.A, [spaces.Discrete(3)] * self.A, agent_ids=ids)
            except Exception as ex:   # noqa: BLE001
                raise HarnessError(f"could not build IPPO: {type(ex).__name__}: {ex}")
        return self._agent

    def run(self, v):
        import agilerl.algorithms.ippo as ippo_mod
        import agilerl.utils.algo_utils as au
        A, E, nA = self.A, self.E, 3
        agent = self.agent()
        ids = list(agent.agent_ids)
        obs = {a: v.array(f"o_{a}", (E, 2)) for a in ids}
        labels = [x for a in ids for x in elems(obs[a])]
        for i in range(len(labels)):
            for j in range(i):
                v.assume(neg(eq(labels[i], labels[j])))
        masks = {a: [[v.flag(f"m_{a}_{e}_{k}") for k in range(nA)] for e in range(E)] for a in ids}
        # masks as nested lists, or as the numpy arrays PettingZoo environments put into their infos
        infos = {a: {"action_mask": (as_array(v, masks[a]) if self.arrays else masks[a])} for a in ids}
        seen = {}

        class Actor:
            squash_output = False

            def __call__(self, x, action_mask=None):
                n = x.shape[0]
                seen["x"], seen["mask"] = x, action_mask
                return v.tensor("act", (n,)), v.tensor("lp", (n,)), v.tensor("ent", (n,))

            def eval(self):
                return self

            def train(self, m=True):
                return self

        class Critic(Actor):
            def __call__(self, x):
                return v.tensor("val", (x.shape[0], 1))

        patches = [(agent, "actors", [Actor()]), (agent, "critics", [Critic()])]
        if v.mode != "real":
            patches += [(au, "torch", ShimTorch()), (ippo_mod, "torch", ShimTorch())]
        with patched(*patches):
            agent.get_action(obs, infos)
        res = []
        x, m = seen.get("x"), seen.get("mask")
        res.append(Ob("policy-receives-a-mask-with-one-row-per-(agent,env)", x is not None and m is not None and x.shape[0] == A * E and int(np.prod(tuple(m.shape))) == A * E * nA))
        if len(res) and res[-1].cond is not True and not res[-1].cond:
            return res
        m2 = m.reshape(A * E, nA)           # what EvolvableDistribution.apply_mask does: mask.view(logits.shape)
        for a in ids:
            for e in range(E):
                row = None
                for i in reversed(range(A * E)):
                    hit = all_eq(x[i], obs[a][e])
                    cand = [val(m2, i, k) for k in range(nA)]
                    row = cand if row is None else [ite(hit, c, r) for c, r in zip(cand, row)]
                res.append(Ob(f"{a}/env{e}/the-mask-applied-to-its-logits-is-its-own-mask", conj(*[eq(r, mk_) for r, mk_ in zip(row, masks[a][e])]), site=self.site))
        return res


def cases(tier):
    cs = [DistCase("discrete3"), DistCase("discrete3", masked=True), DistCase("multidiscrete23"), DistCase("multidiscrete23", masked=True),
          DistCase("multibinary3"), DistCase("multibinary3", masked=True), DistCase("box2"), DistCase("box2", squash=True), DistCase("box1", B=2),
          DistCase("discrete3", reeval=True), DistCase("multidiscrete23", reeval=True), DistCase("box2", reeval=True), DistCase("box2", squash=True, reeval=True),
          DistCase("multibinary3", reeval=True),
          DistCase("box2", squash=True, history="recreate"), DistCase("box2", squash=True, history="clone"), DistCase("box2", history="latent-mutation"),
          DistCase("discrete3", masked=True, history="clone"),
          IPPOMaskRouting(2, 2), IPPOMaskRouting(3, 2), IPPOMaskRouting(2, 2, arrays=True)]
    # PPO level: the action PPO.get_action returns in training mode is the very sample whose log-probability it reports (C14's harness)
    from .c14_actions import PPOEvalAction, IPPOGroupClip
    cs += [PPOEvalAction(False, True), PPOEvalAction(True, True), IPPOGroupClip(1)]
    if tier == "thorough":
        cs += [DistCase("discrete3", B=3, masked=True), DistCase("multidiscrete23", B=3, masked=True), DistCase("box2", B=3, squash=True), DistCase("box1", squash=True)]
    return cs
