"""C03 — architecture mutations keep every network bounded and rebuildable, and do what they advertise.

Real code executed: every @mutation method of EvolvableMLP and EvolvableCNN (+ MutableKernelSizes, calc_max_kernel_sizes),
EvolvableNetwork.add_latent_node/remove_latent_node, through the real _mutation_wrapper / MutationContext of a real module
instance.  In the symbolic modes the instance's architecture attributes are overwritten with proxies and
recreate_network is a recorder; in the real (replay/validation) mode a real module is built from the model's numbers, the
real recreate_network runs and a forward pass is made.
One mutation from an ARBITRARY architecture inside its declared bounds (inductive step => chains of any length).
"""
from __future__ import annotations

import copy
import math

import numpy as np
import torch
from gymnasium import spaces

from .common import *   # noqa: F401,F403
from .common import Case, Ob, require, val, elems, eq, le, lt, ge, gt, conj, disj, neg, all_eq, HarnessError, patched, ShimNumpy, Recorder
from symx.core import ite, Sym
from symx.shim import ShimInt
from symx.values import AssumptionFailed

import agilerl.modules.mlp as mlp_mod
import agilerl.modules.cnn as cnn_mod
import agilerl.networks.base as nb_mod
import agilerl.utils.evolvable_networks as en_mod
from agilerl.modules.mlp import EvolvableMLP
from agilerl.modules.cnn import EvolvableCNN, MutableKernelSizes
from agilerl.networks.base import EvolvableNetwork
from agilerl.networks.q_networks import QNetwork

PROPERTY = "C03"


def cint(x):
    return x.__index__() if isinstance(x, Sym) else int(x)


class Rng:
    """np.random stand-in: arbitrary values within the documented contract, logged"""

    def __init__(self, v):
        self.v = v
        self.log = []

    def randint(self, low, high=None, size=None):
        if high is None:
            low, high = 0, low
        d = self.v.int("randint")
        self.v.assume(conj(d >= low, d < high), "np.random.randint(low, high) in [low, high)")
        self.log.append(("randint", low, high, d))
        if size is None:
            return d
        out = np.empty(1, dtype=object)
        out[0] = d
        return out

    def choice(self, seq, size=None):
        seq = list(seq)
        d = self.v.int("choice")
        self.v.assume(disj(*[eq(d, s) for s in seq]), "np.random.choice(seq) is an element of seq")
        self.log.append(("choice", seq, d))
        out = np.empty(1, dtype=object)
        out[0] = d
        return out if size is not None else d


class Counting:
    def __init__(self, fn=None):
        self.calls = []
        self.fn = fn

    def __call__(self, *a, **k):
        self.calls.append((a, k))
        if self.fn is not None:
            return self.fn(*a, **k)


def forward_ok(module, x, out_dim):
    with torch.no_grad():
        y = module(x)
    return tuple(y.shape) == (x.shape[0], out_dim) and bool(torch.isfinite(y).all())


# ------------------------------------------------------------------------------------------------ MLP


class MLPMutation(Case):
    functions = (EvolvableMLP.add_layer, EvolvableMLP.remove_layer, EvolvableMLP.add_node, EvolvableMLP.remove_node)
    stubs = ("np.random of agilerl.modules.mlp -> arbitrary draws within the documented ranges",
             "recreate_network = recorder in the symbolic modes (architecture attributes are proxies); the real one runs in replay/validation, followed by a forward pass")
    assumptions = ("pre-state inside its declared bounds: min_hidden_layers <= len(hidden_size) <= max_hidden_layers, min_mlp_nodes <= every width <= max_mlp_nodes, min < max",
                   "explicit arguments: hidden_layer >= 0, numb_new_nodes >= 1")
    outside = ("finite outputs / rebuildability for symbolic widths (real layers need concrete sizes; exercised on the replayed models only)",)
    site = "EvolvableMLP"

    def __init__(self, method, L, given):
        self.method, self.L, self.given = method, L, given
        self.name = f"mlp-{method}-layers{L}-{'args' if given else 'random'}"
        self.site = f"EvolvableMLP.{method}"
        self.bounds = {"hidden_layers": L, "arguments": "explicit symbolic" if given else "None (random draws symbolic)",
                       "symbolic": "every width, min/max nodes, min/max layers, hidden_layer, numb_new_nodes, every random draw"}
        self._tmpl = None

    def template(self):
        if self._tmpl is None:
            self._tmpl = EvolvableMLP(2, 2, [4] * self.L, min_mlp_nodes=2, max_mlp_nodes=16, min_hidden_layers=1, max_hidden_layers=max(2, self.L + 1))
        return self._tmpl

    def run(self, v):
        L = self.L
        hs = [v.int(f"h{i}") for i in range(L)]
        mnl, mxl, mnn, mxn = v.int("min_layers"), v.int("max_layers"), v.int("min_nodes"), v.int("max_nodes")
        v.assume(conj(mnl >= 1, mnl < mxl, mnl <= L, L <= mxl, mnn >= 1, mnn < mxn, *[conj(h >= mnn, h <= mxn) for h in hs]))
        args = {}
        if self.given and self.method in ("add_node", "remove_node"):
            hl, n = v.int("hidden_layer"), v.int("numb_new_nodes")
            v.assume(conj(hl >= 0, hl <= L + 1, n >= 1))
            args = {"hidden_layer": hl, "numb_new_nodes": n}
        rng = Rng(v)
        if v.mode == "real":
            try:
                m = EvolvableMLP(2, 2, list(hs), min_hidden_layers=mnl, max_hidden_layers=mxl, min_mlp_nodes=mnn, max_mlp_nodes=mxn)
            except AssertionError as ex:
                raise AssumptionFailed(f"constructor rejects the configuration: {ex}")
            rec = Counting(m.recreate_network)
        else:
            m = self.template()
            require(m, "hidden_size", "min_hidden_layers", "max_hidden_layers", "min_mlp_nodes", "max_mlp_nodes", "recreate_network", "last_mutation_attr")
            m.hidden_size = list(hs)
            m.min_hidden_layers, m.max_hidden_layers, m.min_mlp_nodes, m.max_mlp_nodes = mnl, mxl, mnn, mxn
            rec = Counting()
        with patched((mlp_mod, "np", ShimNumpy({"random": rng})), (m, "recreate_network", rec)):
            ret = getattr(m, self.method)(**args)
        post = list(m.hidden_size)
        Lp = len(post)
        obs = [Ob("recreate_network-called-exactly-once", len(rec.calls) == 1)]
        obs.append(Ob("layers-within-bounds", conj(Lp >= mnl, Lp <= mxl), site=self.site + "/bounds"))
        obs.append(Ob("widths-within-bounds", conj(*[conj(h >= mnn, h <= mxn) for h in post]), site=self.site + "/bounds"))
        applied = m.last_mutation_attr

        def node_effect(kind, idx_expr, n, tag):
            """oracle for add/remove node on layer idx (symbolic): strictly inside the bound => applied exactly; others unchanged"""
            out = [Ob(f"{tag}/layer-count-unchanged", Lp == L)]
            if Lp != L:
                return out
            for i in range(L):
                is_i = eq(idx_expr, i)
                if kind == "add":
                    inside, beyond, new = lt(hs[i] + n, mxn), gt(hs[i] + n, mxn), hs[i] + n
                else:
                    inside, beyond, new = gt(hs[i] - n, mnn), lt(hs[i] - n, mnn), hs[i] - n
                out.append(Ob(f"{tag}/layer{i}/applied-exactly-when-strictly-inside-the-bound", disj(neg(is_i), neg(inside), eq(post[i], new)), site=self.site + "/effect"))
                out.append(Ob(f"{tag}/layer{i}/width-is-old-or-advertised-new", disj(eq(post[i], hs[i]), conj(is_i, eq(post[i], new))), site=self.site + "/effect"))
                out.append(Ob(f"{tag}/layer{i}/other-layers-untouched", disj(is_i, eq(post[i], hs[i])), site=self.site + "/effect"))
            return out

        def drawn():
            layer = [d for k, *r, d in [(e[0], *e[1:]) for e in rng.log] if k == "randint"]
            num = [e[2] for e in rng.log if e[0] == "choice"]
            return (layer[-1] if layer else None), (num[-1] if num else None)

        if self.method in ("add_layer", "remove_layer"):
            can = (L < mxl) if self.method == "add_layer" else (L > mnl)
            took = applied == self.method
            obs.append(Ob("layer-mutation-applied-iff-not-stopped-by-the-bound", eq(can, took) if isinstance(can, Sym) else bool(can) == took, site=self.site + "/effect"))
            if took:
                exp = hs + [hs[-1]] if self.method == "add_layer" else hs[:-1]
                obs.append(Ob("advertised-layer-change", Lp == len(exp) and conj(*[eq(a, b) for a, b in zip(post, exp)]), site=self.site + "/effect"))
            else:
                obs.append(Ob("fallback-is-add_node-and-last_mutation_attr-names-it", applied == "add_node", site=self.site + "/fallback"))
                d, n = drawn()
                if d is None or n is None:
                    obs.append(Ob("fallback-draws-layer-and-count", False))
                else:
                    obs += node_effect("add", d, n, "fallback-add_node")
        else:
            obs.append(Ob("last_mutation_attr-names-the-method", applied == self.method))
            if self.given:
                hl, n = args["hidden_layer"], args["numb_new_nodes"]
                idx = ite(hl < L - 1, hl, L - 1) if isinstance(hl, Sym) else min(hl, L - 1)
            else:
                idx, n = drawn()
            if idx is None or n is None:
                obs.append(Ob("draws-layer-and-count", False))
            else:
                obs += node_effect("add" if self.method == "add_node" else "remove", idx, n, self.method)
                if isinstance(ret, dict):
                    obs.append(Ob("returns-the-layer-and-count-used", conj(eq(ret.get("hidden_layer"), idx), eq(ret.get("numb_new_nodes"), n))))
        if self.method == "add_layer" and L >= 1:
            obs.append(Ob("twin/add_layer-never-adds", Lp == L, expect="sat"))
        obs.append(Ob("network-rebuilds-and-maps-a-batch-to-finite-outputs-of-its-shape", forward_ok(m, torch.zeros(3, 2), 2) if v.mode == "real" else True,
                      site=self.site + "/rebuild"))
        return obs


# ------------------------------------------------------------------------------------------------ CNN


def conv_chain(H, W, ks, ss):
    """sizes through the conv stack (torch's documented recurrence); returns list of (h_in, w_in) per layer + final (h, w)"""
    ins = []
    h, w = H, W
    for k, s in zip(ks, ss):
        ins.append((h, w))
        s = cint(s)
        h = (h - k) // s + 1
        w = (w - k) // s + 1
    return ins, (h, w)


def chain_valid(H, W, ks, ss):
    ins, (h, w) = conv_chain(H, W, ks, ss)
    return conj(*[conj(k >= 1, hi >= k, wi >= k) for (hi, wi), k in zip(ins, ks)], h >= 1, w >= 1)


class CNNMutation(Case):
    functions = (EvolvableCNN.add_layer, EvolvableCNN.remove_layer, EvolvableCNN.change_kernel, EvolvableCNN.add_channel, EvolvableCNN.remove_channel,
                 MutableKernelSizes.change_kernel_size, MutableKernelSizes.calc_max_kernel_sizes, en_mod.calc_max_kernel_sizes)
    stubs = MLPMutation.stubs[:1] + ("np.random of agilerl.modules.cnn -> arbitrary draws", "int() of agilerl.utils.evolvable_networks accepts proxies (truncation)",
                                     "recreate_network = recorder in the symbolic modes; cnn_output_size is set to the conv recurrence's output (the value the real create_cnn records)")
    assumptions = ("pre-state is a valid conv chain (every layer's input >= its kernel, output >= 1) inside its declared bounds; strides are concrete (1 or 2)",
                   "explicit arguments: hidden_layer in range, numb_new_channels >= 1")
    outside = ("Conv3d / tuple kernel sizes", "kernel sizes passed explicitly by the caller to change_kernel (caller's responsibility)")

    def __init__(self, method, strides, given=False):
        self.method, self.strides, self.given = method, tuple(strides), given
        self.L = len(strides)
        self.name = f"cnn-{method}-strides{''.join(map(str, strides))}-{'args' if given else 'random'}"
        self.site = f"EvolvableCNN.{method}"
        self.bounds = {"conv_layers": self.L, "strides": list(strides), "input": "H, W symbolic in [4, 128]",
                       "symbolic": "H, W, every kernel size, channel size, min/max channels, min/max layers, every random draw"}
        self._tmpl = None

    def template(self):
        if self._tmpl is None:
            self._tmpl = EvolvableCNN([1, 16, 16], 2, [4] * self.L, [2] * self.L, [1] * self.L, min_channel_size=2, max_channel_size=16,
                                      min_hidden_layers=1, max_hidden_layers=max(2, self.L + 1))
        return self._tmpl

    def run(self, v):
        L = self.L
        H, W = v.int("H"), v.int("W")
        ks = [v.int(f"k{i}") for i in range(L)]
        cs = [v.int(f"c{i}") for i in range(L)]
        ss = list(self.strides)
        mnl, mxl, mnc, mxc = v.int("min_layers"), v.int("max_layers"), v.int("min_channels"), v.int("max_channels")
        v.assume(conj(H >= 4, H <= 128, W >= 4, W <= 128, mnl >= 1, mnl < mxl, mnl <= L, L <= mxl, mnc >= 1, mnc < mxc,
                      *[conj(c >= mnc, c <= mxc) for c in cs]))
        v.assume(chain_valid(H, W, ks, ss), "pre-state is a valid conv chain")
        _, (ho, wo) = conv_chain(H, W, ks, ss)
        args = {}
        if self.given and self.method in ("add_channel", "remove_channel"):
            hl, n = v.int("hidden_layer"), v.int("numb_new_channels")
            v.assume(conj(hl >= 0, hl <= L + 1, n >= 1))
            args = {"hidden_layer": hl, "numb_new_channels": n}
        rng = Rng(v)
        if v.mode == "real":
            try:
                m = EvolvableCNN([1, H, W], 2, list(cs), list(ks), list(ss), min_hidden_layers=mnl, max_hidden_layers=mxl, min_channel_size=mnc, max_channel_size=mxc)
            except (AssertionError, RuntimeError) as ex:
                raise AssumptionFailed(f"constructor rejects the configuration: {ex}")
            rec = Counting(m.recreate_network)
            extra = []
        else:
            m = self.template()
            require(m, "channel_size", "stride_size", "mut_kernel_size", "input_shape", "cnn_output_size", "min_hidden_layers", "max_hidden_layers",
                    "min_channel_size", "max_channel_size", "recreate_network", "last_mutation_attr")
            m.channel_size, m.stride_size = list(cs), list(ss)
            m.mut_kernel_size = MutableKernelSizes(list(ks), "Conv2d", None)
            m.input_shape = [1, H, W]
            m.cnn_output_size = (1, cs[-1], ho, wo)
            m.min_hidden_layers, m.max_hidden_layers, m.min_channel_size, m.max_channel_size = mnl, mxl, mnc, mxc
            rec = Counting()
            extra = [(en_mod, "int", ShimInt)]
        with patched((cnn_mod, "np", ShimNumpy({"random": rng})), (m, "recreate_network", rec), *extra):
            ret = getattr(m, self.method)(**args)
        pcs, pks, pss = list(m.channel_size), list(m.mut_kernel_size.sizes), [cint(s) for s in m.stride_size]
        Lp = len(pcs)
        applied = m.last_mutation_attr
        obs = [Ob("recreate_network-called-exactly-once", len(rec.calls) == 1)]
        obs.append(Ob("lists-stay-aligned", len(pks) == Lp and len(pss) == Lp))
        if not (len(pks) == Lp and len(pss) == Lp):
            return obs
        obs.append(Ob("layers-within-bounds", conj(Lp >= mnl, Lp <= mxl), site=self.site + "/bounds"))
        obs.append(Ob("channels-within-bounds", conj(*[conj(c >= mnc, c <= mxc) for c in pcs]), site=self.site + "/bounds"))
        obs.append(Ob("strides-at-least-one", all(s >= 1 for s in pss), site=self.site + "/bounds"))
        # the network can still be built: every layer's input is at least its kernel
        obs.append(Ob("conv-chain-still-valid-(network-can-be-rebuilt)", chain_valid(H, W, pks, pss), site=self.site + "/conv-chain-invalid"))
        if self.method in ("add_channel", "remove_channel") or applied in ("add_channel",) and self.method in ("add_layer", "remove_layer", "change_kernel"):
            obs.append(Ob("kernels-and-strides-untouched-by-channel-mutation", conj(Lp == L, *[eq(a, b) for a, b in zip(pks, ks)], *[a == b for a, b in zip(pss, ss)])))
        if self.method == "remove_layer":
            can = L > mnl
            took = applied == "remove_layer"
            obs.append(Ob("layer-removed-iff-not-stopped-by-the-bound", eq(can, took) if isinstance(can, Sym) else bool(can) == took, site=self.site + "/effect"))
            if took:
                obs.append(Ob("advertised-layer-removal", Lp == L - 1 and conj(*[eq(a, b) for a, b in zip(pcs + pks, cs[:-1] + ks[:-1])]) and pss == ss[:-1], site=self.site + "/effect"))
            else:
                obs.append(Ob("fallback-is-add_channel", applied == "add_channel", site=self.site + "/fallback"))
        if self.method == "add_layer" and applied == "add_layer":
            obs.append(Ob("advertised-layer-addition", Lp == L + 1 and conj(*[eq(a, b) for a, b in zip(pcs[:-1] + pks[:-1], cs + ks)], eq(pcs[-1], cs[-1]), pks[-1] >= 2) and pss[:-1] == ss
                          and 1 <= pss[-1] <= ss[-1], site=self.site + "/effect"))
        if self.method == "add_layer" and applied != "add_layer":
            obs.append(Ob("fallback-is-add_channel", applied == "add_channel", site=self.site + "/fallback"))
        if self.method == "change_kernel" and L > 1:
            obs.append(Ob("change_kernel-keeps-layers-channels-strides", conj(Lp == L, *[eq(a, b) for a, b in zip(pcs, cs)]) and pss == ss))
            if isinstance(ret, dict) and Lp == L:
                hl = ret.get("hidden_layer")
                obs.append(Ob("only-the-chosen-layer's-kernel-changes-and-is-returned",
                              conj(*[disj(eq(hl, i), eq(pks[i], ks[i])) for i in range(L)], *[disj(neg(eq(hl, i)), eq(pks[i], ret.get("kernel_size"))) for i in range(L)]),
                              site=self.site + "/effect"))
        if self.method in ("add_channel", "remove_channel") and Lp == L:
            if self.given:
                hl, n = args["hidden_layer"], args["numb_new_channels"]
                idx = ite(hl < L - 1, hl, L - 1) if isinstance(hl, Sym) else min(hl, L - 1)
            else:
                idx = [e[3] for e in rng.log if e[0] == "randint"][-1]
                n = [e[2] for e in rng.log if e[0] == "choice"][-1]
            for i in range(L):
                is_i = eq(idx, i)
                if self.method == "add_channel":
                    inside, new = lt(cs[i] + n, mxc), cs[i] + n
                else:
                    inside, new = gt(cs[i] - n, mnc), cs[i] - n
                obs.append(Ob(f"layer{i}/applied-exactly-when-strictly-inside-the-bound", disj(neg(is_i), neg(inside), eq(pcs[i], new)), site=self.site + "/effect"))
                obs.append(Ob(f"layer{i}/channels-old-or-advertised-new", disj(eq(pcs[i], cs[i]), conj(is_i, eq(pcs[i], new))), site=self.site + "/effect"))
        if self.method == "add_channel":
            obs.append(Ob("twin/add_channel-never-adds", conj(*[eq(a, b) for a, b in zip(pcs, cs)]), expect="sat"))
        obs.append(Ob("network-rebuilds-and-maps-a-batch-to-finite-outputs-of-its-shape",
                      forward_ok(m, torch.zeros(2, 1, int(H), int(W)), 2) if v.mode == "real" else True, site=self.site + "/rebuild"))
        return obs


# ------------------------------------------------------------------------------------------------ latent nodes


class LatentMutation(Case):
    functions = (EvolvableNetwork.add_latent_node, EvolvableNetwork.remove_latent_node)
    stubs = ("np.random of agilerl.networks.base -> arbitrary draw", "recreate_network = recorder in the symbolic modes")
    assumptions = ("min_latent_dim <= latent_dim <= max_latent_dim, min < max, numb_new_nodes >= 1",)

    def __init__(self, method, given):
        self.method, self.given = method, given
        self.name = f"latent-{method}-{'args' if given else 'random'}"
        self.site = f"EvolvableNetwork.{method}"
        self.bounds = {"symbolic": "latent_dim, min/max latent dim, numb_new_nodes or the random draw"}
        self._tmpl = None

    def template(self):
        if self._tmpl is None:
            self._tmpl = QNetwork(spaces.Box(-1, 1, (2,)), spaces.Discrete(2), latent_dim=4, min_latent_dim=2, max_latent_dim=16,
                                  encoder_config={"hidden_size": [4]}, head_config={"hidden_size": [4]})
        return self._tmpl

    def run(self, v):
        ld, mn, mx = v.int("latent_dim"), v.int("min_latent_dim"), v.int("max_latent_dim")
        v.assume(conj(mn >= 1, mn < mx, ld >= mn, ld <= mx))
        args = {}
        if self.given:
            n = v.int("numb_new_nodes")
            v.assume(n >= 1)
            args = {"numb_new_nodes": n}
        rng = Rng(v)
        if v.mode == "real":
            try:
                m = QNetwork(spaces.Box(-1, 1, (2,)), spaces.Discrete(2), latent_dim=ld, min_latent_dim=mn, max_latent_dim=mx,
                             encoder_config={"hidden_size": [4]}, head_config={"hidden_size": [4]})
            except AssertionError as ex:
                raise AssumptionFailed(f"constructor rejects the configuration: {ex}")
            rec = Counting(m.recreate_network)
        else:
            m = self.template()
            require(m, "latent_dim", "min_latent_dim", "max_latent_dim", "recreate_network")
            m.latent_dim, m.min_latent_dim, m.max_latent_dim = ld, mn, mx
            rec = Counting()
        with patched((nb_mod, "np", ShimNumpy({"random": rng})), (m, "recreate_network", rec)):
            ret = getattr(m, self.method)(**args)
        n = args.get("numb_new_nodes") if self.given else [e[2] for e in rng.log if e[0] == "choice"][-1]
        post = m.latent_dim
        add = self.method == "add_latent_node"
        new = ld + n if add else ld - n
        inside = lt(new, mx) if add else gt(new, mn)
        obs = [Ob("latent-dim-within-bounds", conj(post >= mn, post <= mx), site=self.site + "/bounds"),
               Ob("applied-exactly-when-strictly-inside-the-bound", disj(neg(inside), eq(post, new)), site=self.site + "/effect"),
               Ob("latent-dim-is-old-or-advertised-new", disj(eq(post, ld), eq(post, new)), site=self.site + "/effect"),
               Ob("twin/never-changes", eq(post, ld), expect="sat"),
               Ob("recreate_network-called-exactly-once", len(rec.calls) == 1),
               Ob("network-rebuilds-and-maps-a-batch-to-finite-outputs-of-its-shape", forward_ok(m, torch.zeros(3, 2), 2) if v.mode == "real" else True, site=self.site + "/rebuild")]
        return obs


class LatentRebuild(Case):
    """EvolvableNetwork.add/remove_latent_node followed by the REAL recreate_network and a forward pass, for every small
    configuration (all integers are decided up front by forking, so real layers can be built on every path): the rebuilt
    encoder emits the new latent width and the network still maps a batch to outputs of its shape.  Variants: the default
    encoder, and an encoder given as encoder_cls / encoder_config (the custom-encoder branch of recreate_encoder)."""
    functions = (EvolvableNetwork.add_latent_node, EvolvableNetwork.remove_latent_node, EvolvableNetwork.recreate_encoder, EvolvableNetwork.recreate_network)
    stubs = ("none: real QNetwork, real rebuild, real forward pass",)
    assumptions = ("1 <= min_latent_dim < max_latent_dim <= 6, min <= latent_dim <= max, 1 <= numb_new_nodes <= 3",)

    def __init__(self, method, custom):
        self.method, self.custom = method, custom
        self.name = f"latent-rebuild-{method}-{'custom-encoder_cls' if custom else 'default-encoder'}"
        self.site = f"EvolvableNetwork.{method}/rebuild" + ("-custom-encoder" if custom else "")
        self.exception_site = self.site
        self.bounds = {"encoder": "encoder_cls=EvolvableMLP with its own config" if custom else "default", "symbolic": "latent_dim, min/max latent dim, numb_new_nodes (each decided by forking; 1..6 / 1..3)"}

    def run(self, v):
        ld, mn, mx, n = v.int("latent_dim"), v.int("min_latent_dim"), v.int("max_latent_dim"), v.int("numb_new_nodes")
        v.assume(conj(mn >= 1, mn < mx, mx <= 6, ld >= mn, ld <= mx, n >= 1, n <= 3))
        ld, mn, mx, n = (x.__index__() if isinstance(x, Sym) else int(x) for x in (ld, mn, mx, n))
        torch.manual_seed(1)
        kw = dict(latent_dim=ld, min_latent_dim=mn, max_latent_dim=mx, head_config={"hidden_size": [4]})
        try:
            if self.custom:
                m = QNetwork(spaces.Box(-1, 1, (2,)), spaces.Discrete(2), encoder_cls=EvolvableMLP,
                             encoder_config={"num_inputs": 2, "num_outputs": ld, "hidden_size": [4]}, **kw)
            else:
                m = QNetwork(spaces.Box(-1, 1, (2,)), spaces.Discrete(2), encoder_config={"hidden_size": [4]}, **kw)
        except AssertionError as ex:
            raise AssumptionFailed(f"constructor rejects the configuration: {ex}")
        getattr(m, self.method)(numb_new_nodes=n)
        post = m.latent_dim
        new = ld + n if self.method == "add_latent_node" else ld - n
        inside = new < mx if self.method == "add_latent_node" else new > mn
        res = [Ob("latent-dim-within-bounds", mn <= post <= mx, site=self.site),
               Ob("applied-exactly-when-strictly-inside-the-bound", (not inside) or post == new, site=self.site)]
        enc_out = getattr(m.encoder, "num_outputs", None)
        res.append(Ob("rebuilt-encoder-emits-the-new-latent-width", enc_out == post, site=self.site))
        res.append(Ob("network-rebuilds-and-maps-a-batch-to-finite-outputs-of-its-shape", forward_ok(m, torch.zeros(3, 2), 2), site=self.site))
        return res


class NestedHeadMutation(Case):
    """a head mutation invoked the way Mutations.architecture_mutate does it - through the NETWORK, by its nested name
    ("head_net.add_node") - on StochasticActor (whose head is an EvolvableWrapper around the MLP), DeterministicActor and
    QNetwork: the advertised change reaches the head's MLP, and the network records the method applied"""
    functions = (EvolvableMLP.add_node, EvolvableMLP.remove_node)
    stubs = ("np.random of agilerl.modules.mlp -> arbitrary draws", "the head MLP's recreate_network = recorder in the symbolic modes (its width is a proxy); real rebuild + forward in replay/validation")
    assumptions = ("min_mlp_nodes <= width <= max_mlp_nodes, min < max, numb_new_nodes >= 1",)

    def __init__(self, kind, method, after_latent=False):
        self.kind, self.method, self.after_latent = kind, method, after_latent
        self.name = f"nested-head-{kind}-{method}" + ("-after-latent-mutation" if after_latent else "")
        self.site = f"{kind}/head_net.{method}"
        self.bounds = {"network": kind, "method": f"head_net.{method}", "history": "a latent-dimension mutation of the same instance first (recreate_network has replaced the head)" if after_latent else "fresh",
                       "symbolic": "head width, min/max nodes, numb_new_nodes"}
        self._tmpl = None

    def build(self, h=4, mn=2, mx=16):
        from agilerl.networks.actors import StochasticActor, DeterministicActor
        osp = spaces.Box(-1, 1, (2,))
        cfg = dict(encoder_config={"hidden_size": [3]}, head_config={"hidden_size": [h], "min_mlp_nodes": mn, "max_mlp_nodes": mx}, latent_dim=3, min_latent_dim=1, max_latent_dim=8)
        if self.kind == "StochasticActor":
            return StochasticActor(osp, spaces.Discrete(2), **cfg)
        if self.kind == "DeterministicActor":
            return DeterministicActor(osp, spaces.Box(-1, 1, (2,)), **cfg)
        return QNetwork(osp, spaces.Discrete(2), **cfg)

    def run(self, v):
        h, mn, mx, n = v.int("width"), v.int("min_nodes"), v.int("max_nodes"), v.int("numb_new_nodes")
        v.assume(conj(mn >= 1, mn < mx, h >= mn, h <= mx, n >= 1))
        torch.manual_seed(2)
        try:
            if v.mode == "real":
                net = self.build(h, mn, mx)
            else:
                net = self.build() if self.after_latent else (self._tmpl or self.build())
                if not self.after_latent:
                    self._tmpl = net
        except AssertionError as ex:
            raise AssumptionFailed(f"constructor rejects the configuration: {ex}")
        old_mlp = getattr(net.head_net, "wrapped", net.head_net)
        if self.after_latent:
            net.add_latent_node(numb_new_nodes=1)          # real: recreate_network replaces encoder and head
        mlp = getattr(net.head_net, "wrapped", net.head_net)
        require(mlp, "hidden_size", "min_mlp_nodes", "max_mlp_nodes", "recreate_network")
        if v.mode != "real":
            mlp.hidden_size[:] = [h]           # in place: a replaced head shares this list with its successor, as in a real run
            mlp.min_mlp_nodes, mlp.max_mlp_nodes = mn, mx
            rec = Counting()
        else:
            rec = Counting(mlp.recreate_network)
        net.last_mutation_attr = None
        extra = [(old_mlp, "recreate_network", Counting())] if (old_mlp is not mlp and v.mode != "real") else []      # (a call that reaches the replaced module must not rebuild it with proxies)
        with patched((mlp_mod, "np", ShimNumpy({"random": Rng(v)})), (mlp, "recreate_network", rec), *extra):
            getattr(net, f"head_net.{self.method}")(hidden_layer=0, numb_new_nodes=n)
        post = list(mlp.hidden_size)
        add = self.method == "add_node"
        new = h + n if add else h - n
        inside = lt(new, mx) if add else gt(new, mn)
        res = [Ob("head-keeps-one-layer", len(post) == 1)]
        if len(post) != 1:
            return res
        res.append(Ob("the-live-head-is-rebuilt-exactly-once", len(rec.calls) == 1, site=self.site + "/effect"))
        res.append(Ob("the-network-records-the-method-applied", net.last_mutation_attr == f"head_net.{self.method}", site=self.site + "/bookkeeping"))
        res.append(Ob("applied-exactly-when-strictly-inside-the-bound", disj(neg(inside), eq(post[0], new)), site=self.site + "/effect"))
        res.append(Ob("width-is-old-or-advertised-new", disj(eq(post[0], h), eq(post[0], new)), site=self.site + "/effect"))
        res.append(Ob("width-within-bounds", conj(post[0] >= mn, post[0] <= mx), site=self.site + "/bounds"))
        res.append(Ob("network-rebuilds-and-maps-a-batch-to-finite-outputs-of-its-shape", forward_ok_first(net, torch.zeros(3, 2)) if v.mode == "real" else True, site=self.site + "/rebuild"))
        return res


def forward_ok_first(module, x):
    with torch.no_grad():
        y = module(x)
    y = y[0] if isinstance(y, tuple) else y
    return y.shape[0] == x.shape[0] and bool(torch.isfinite(y.float()).all())


def cases(tier):
    cs = []
    for meth in ("add_layer", "remove_layer"):
        cs += [MLPMutation(meth, 1, False), MLPMutation(meth, 2, False)]
    for meth in ("add_node", "remove_node"):
        cs += [MLPMutation(meth, 2, True), MLPMutation(meth, 2, False), MLPMutation(meth, 1, True)]
    for meth in ("add_layer", "remove_layer", "change_kernel", "add_channel", "remove_channel"):
        cs += [CNNMutation(meth, (1, 1)), CNNMutation(meth, (2, 1))]
    cs += [CNNMutation("add_channel", (1, 1), given=True), CNNMutation("remove_channel", (1,), given=True), CNNMutation("change_kernel", (1,)),
           CNNMutation("add_layer", (1,)), CNNMutation("change_kernel", (1, 1, 1))]
    cs += [LatentMutation("add_latent_node", True), LatentMutation("add_latent_node", False), LatentMutation("remove_latent_node", True),
           LatentMutation("remove_latent_node", False)]
    cs += [LatentRebuild("add_latent_node", True), LatentRebuild("remove_latent_node", True), LatentRebuild("add_latent_node", False)]
    cs += [NestedHeadMutation("StochasticActor", "add_node"), NestedHeadMutation("StochasticActor", "remove_node"), NestedHeadMutation("DeterministicActor", "add_node"),
           NestedHeadMutation("QNetwork", "remove_node"), NestedHeadMutation("QNetwork", "add_node", after_latent=True), NestedHeadMutation("StochasticActor", "add_node", after_latent=True)]
    if tier == "thorough":
        for meth in ("add_layer", "remove_layer", "add_node", "remove_node"):
            cs += [MLPMutation(meth, 3, False)]
        cs += [MLPMutation("add_node", 3, True), MLPMutation("remove_node", 3, True)]
        for meth in ("add_layer", "remove_layer", "change_kernel", "add_channel", "remove_channel"):
            cs += [CNNMutation(meth, (1, 2, 1))] + ([CNNMutation(meth, (1, 1, 1))] if meth != "change_kernel" else [])
    return cs


# ------------------------------------------------------------------------------------------------ SimBa / LSTM / ResNet
# These blocks keep ONE width and ONE count (scalars), with a layer pair and a node pair of mutation methods.

import agilerl.modules.simba as simba_mod
import agilerl.modules.lstm as lstm_mod
import agilerl.modules.resnet as resnet_mod
from agilerl.modules.simba import EvolvableSimBa
from agilerl.modules.lstm import EvolvableLSTM
from agilerl.modules.resnet import EvolvableResNet

SCALAR_SPECS = {
    "simba": dict(cls=EvolvableSimBa, mod=simba_mod, count="num_blocks", cmin="min_blocks", cmax="max_blocks", width="hidden_size", wmin="min_mlp_nodes",
                  wmax="max_mlp_nodes", grow="add_block", shrink="remove_block", wide="add_node", narrow="remove_node", arg="numb_new_nodes",
                  build=lambda c, w, cm, cM, wm, wM: EvolvableSimBa(2, 2, hidden_size=w, num_blocks=c, min_blocks=cm, max_blocks=cM, min_mlp_nodes=wm, max_mlp_nodes=wM),
                  sample=lambda: torch.zeros(3, 2)),
    "lstm": dict(cls=EvolvableLSTM, mod=lstm_mod, count="num_layers", cmin="min_layers", cmax="max_layers", width="hidden_size", wmin="min_hidden_size",
                 wmax="max_hidden_size", grow="add_layer", shrink="remove_layer", wide="add_node", narrow="remove_node", arg="numb_new_nodes",
                 build=lambda c, w, cm, cM, wm, wM: EvolvableLSTM(2, w, 2, num_layers=c, min_layers=cm, max_layers=cM, min_hidden_size=wm, max_hidden_size=wM),
                 sample=lambda: torch.zeros(3, 4, 2)),
    "resnet": dict(cls=EvolvableResNet, mod=resnet_mod, count="num_blocks", cmin="min_blocks", cmax="max_blocks", width="channel_size", wmin="min_channel_size",
                   wmax="max_channel_size", grow="add_block", shrink="remove_block", wide="add_channel", narrow="remove_channel", arg="numb_new_channels",
                   build=lambda c, w, cm, cM, wm, wM: EvolvableResNet([1, 6, 6], 2, channel_size=w, kernel_size=3, stride_size=1, num_blocks=c, min_blocks=cm, max_blocks=cM,
                                                                      min_channel_size=wm, max_channel_size=wM),
                   sample=lambda: torch.zeros(2, 1, 6, 6)),
}


class ScalarArchMutation(Case):
    stubs = MLPMutation.stubs
    assumptions = ("pre-state inside its declared bounds: min <= count <= max, min <= width <= max, min < max; explicit argument >= 1",)
    outside = MLPMutation.outside

    def __init__(self, block, role, given):
        self.block, self.role, self.given = block, role, given
        sp = SCALAR_SPECS[block]
        self.method = sp[role]
        self.functions = tuple(getattr(sp["cls"], sp[r]) for r in ("grow", "shrink", "wide", "narrow"))
        self.name = f"{block}-{self.method}-{'args' if given else 'random'}"
        self.site = f"{sp['cls'].__name__}.{self.method}"
        self.bounds = {"block": block, "method": self.method, "symbolic": "count, width, their declared minima and maxima, the argument or the random draw"}
        self._tmpl = None

    def template(self):
        if self._tmpl is None:
            self._tmpl = SCALAR_SPECS[self.block]["build"](1, 4, 1, 3, 2, 16)
        return self._tmpl

    def run(self, v):
        sp = SCALAR_SPECS[self.block]
        c, w = v.int("count"), v.int("width")
        cm, cM, wm, wM = v.int("min_count"), v.int("max_count"), v.int("min_width"), v.int("max_width")
        v.assume(conj(cm >= 1, cm < cM, c >= cm, c <= cM, wm >= 1, wm < wM, w >= wm, w <= wM))
        args = {}
        if self.given and self.role in ("wide", "narrow"):
            n = v.int("n")
            v.assume(n >= 1)
            args = {sp["arg"]: n}
        rng = Rng(v)
        if v.mode == "real":
            try:
                m = sp["build"](c, w, cm, cM, wm, wM)
            except (AssertionError, RuntimeError, ValueError) as ex:
                raise AssumptionFailed(f"constructor rejects the configuration: {ex}")
            rec = Counting(m.recreate_network)
        else:
            m = self.template()
            require(m, sp["count"], sp["cmin"], sp["cmax"], sp["width"], sp["wmin"], sp["wmax"], "recreate_network", "last_mutation_attr")
            for attr, val_ in ((sp["count"], c), (sp["cmin"], cm), (sp["cmax"], cM), (sp["width"], w), (sp["wmin"], wm), (sp["wmax"], wM)):
                setattr(m, attr, val_)
            rec = Counting()
        with patched((sp["mod"], "np", ShimNumpy({"random": rng})), (m, "recreate_network", rec)):
            getattr(m, self.method)(**args)
        c2, w2 = getattr(m, sp["count"]), getattr(m, sp["width"])
        applied = m.last_mutation_attr
        res = [Ob("recreate_network-called-exactly-once", len(rec.calls) == 1),
               Ob("count-within-bounds", conj(c2 >= cm, c2 <= cM), site=self.site + "/bounds"),
               Ob("width-within-bounds", conj(w2 >= wm, w2 <= wM), site=self.site + "/bounds")]

        def width_effect(kind, n, tag):
            new = w + n if kind == "wide" else w - n
            inside = lt(new, wM) if kind == "wide" else gt(new, wm)
            return [Ob(f"{tag}/applied-exactly-when-strictly-inside-the-bound", disj(neg(inside), eq(w2, new)), site=self.site + "/effect"),
                    Ob(f"{tag}/width-is-old-or-advertised-new", disj(eq(w2, w), eq(w2, new)), site=self.site + "/effect"),
                    Ob(f"{tag}/count-untouched", eq(c2, c), site=self.site + "/effect")]

        if self.role in ("grow", "shrink"):
            can = (c < cM) if self.role == "grow" else (c > cm)
            took = applied == self.method
            res.append(Ob("count-mutation-applied-iff-not-stopped-by-the-bound", eq(can, took) if isinstance(can, Sym) else bool(can) == took, site=self.site + "/effect"))
            if took:
                res.append(Ob("advertised-count-change-and-nothing-else", conj(eq(c2, c + 1 if self.role == "grow" else c - 1), eq(w2, w)), site=self.site + "/effect"))
            else:
                res.append(Ob("fallback-widens-and-last_mutation_attr-names-it", applied == sp["wide"], site=self.site + "/fallback"))
                draws = [e[2] for e in rng.log if e[0] == "choice"]
                if draws:
                    res += width_effect("wide", draws[-1], "fallback")
                else:
                    res.append(Ob("fallback-draws-a-count", False))
        else:
            res.append(Ob("last_mutation_attr-names-the-method", applied == self.method))
            n = args.get(sp["arg"]) if self.given else ([e[2] for e in rng.log if e[0] == "choice"] or [None])[-1]
            if n is None:
                res.append(Ob("draws-a-count", False))
            else:
                res += width_effect(self.role, n, self.method)
        if self.role == "grow":
            res.append(Ob("twin/never-grows", eq(c2, c), expect="sat"))
        res.append(Ob("network-rebuilds-and-maps-a-batch-to-finite-outputs-of-its-shape",
                      forward_ok(m, sp["sample"](), 2) if v.mode == "real" else True, site=self.site + "/rebuild"))
        return res


import agilerl.modules.multi_input as mi_mod
from agilerl.modules.multi_input import EvolvableMultiInput


class MultiInputMutation(Case):
    """EvolvableMultiInput.add_latent_node / remove_latent_node, fresh or AFTER a mutation of a nested feature extractor:
    the latent width obeys its bounds, and what recreate_network builds the nested extractors from (get_inner_init_dict) is
    their CURRENT architecture with the new latent width - an earlier nested mutation is not undone"""
    functions = (EvolvableMultiInput.add_latent_node, EvolvableMultiInput.remove_latent_node, EvolvableMultiInput.get_inner_init_dict, EvolvableMultiInput.recreate_network)
    stubs = ("np.random of agilerl.modules.multi_input -> arbitrary draws within the documented ranges",
             "recreate_network = recorder in the symbolic modes (the latent width is a proxy); the real one runs in replay/validation, followed by a forward pass")
    assumptions = ("pre-state inside its declared bounds: min_latent_dim <= latent_dim <= max_latent_dim, min < max; explicit argument >= 1",)
    outside = ("rebuildability for symbolic widths (real layers need concrete sizes; exercised on the replayed models only)",)

    def __init__(self, method, given, nested):
        self.method, self.given, self.nested = method, given, nested
        self.name = f"multi-input-{method}-{'args' if given else 'random'}" + ("-after-nested-mutation" if nested else "")
        self.site = f"EvolvableMultiInput.{method}"
        self.bounds = {"observation": "Dict(image 1x8x8, vector 3)", "history": "a channel added to the nested CNN first" if nested else "fresh",
                       "symbolic": "latent_dim, its minimum and maximum, the argument or the random draw"}

    def build(self, latent=16, lo=8, hi=128):
        sp = spaces.Dict({"img": spaces.Box(0, 1, (1, 8, 8), dtype=np.float32), "vec": spaces.Box(-1, 1, (3,), dtype=np.float32)})
        return EvolvableMultiInput(sp, 4, latent_dim=latent, min_latent_dim=lo, max_latent_dim=hi,
                                   cnn_config={"channel_size": [2], "kernel_size": [3], "stride_size": [1]}, vector_space_mlp=False)

    def run(self, v):
        ld, lo, hi = v.int("latent_dim"), v.int("min_latent_dim"), v.int("max_latent_dim")
        v.assume(conj(lo >= 1, lo < hi, ld >= lo, ld <= hi))
        args = {}
        if self.given:
            n = v.int("n")
            v.assume(n >= 1)
            args = {"numb_new_nodes": n}
        rng = Rng(v)
        torch.manual_seed(3)
        try:
            if v.mode == "real":
                m = self.build(ld, lo, hi)
            else:
                m = self.build()
        except (AssertionError, RuntimeError, ValueError) as ex:
            if v.mode == "real":
                raise AssumptionFailed(f"constructor rejects the configuration: {ex}")
            raise HarnessError(f"could not build EvolvableMultiInput: {ex}")
        require(m, "latent_dim", "min_latent_dim", "max_latent_dim", "feature_net", "get_inner_init_dict", "recreate_network", "last_mutation_attr")
        if self.nested:
            m.feature_net["img"].add_channel(hidden_layer=0, numb_new_channels=2)       # a real mutation of the nested CNN (concrete)
        arch0 = {k: copy.deepcopy(net.init_dict) for k, net in m.feature_net.modules().items()}
        if self.nested and list(arch0["img"]["channel_size"]) != [4]:
            raise HarnessError(f"nested mutation did not apply: {arch0['img']['channel_size']}")
        if v.mode != "real":
            m.latent_dim, m.min_latent_dim, m.max_latent_dim = ld, lo, hi
            rec = Counting()
        else:
            rec = Counting(m.recreate_network)
        with patched((mi_mod, "np", ShimNumpy({"random": rng})), (m, "recreate_network", rec)):
            getattr(m, self.method)(**args)
        l2 = m.latent_dim
        n = args.get("numb_new_nodes") if self.given else ([e[2] for e in rng.log if e[0] == "choice"] or [None])[-1]
        res = [Ob("recreate_network-called-exactly-once", len(rec.calls) == 1),
               Ob("latent-width-within-bounds", conj(l2 >= lo, l2 <= hi), site=self.site + "/bounds"),
               Ob("last_mutation_attr-names-the-method", m.last_mutation_attr == self.method)]
        if n is None:
            res.append(Ob("draws-a-count", False))
        else:
            new = ld + n if self.method == "add_latent_node" else ld - n
            inside = lt(new, hi) if self.method == "add_latent_node" else gt(new, lo)
            res.append(Ob("applied-exactly-when-strictly-inside-the-bound", disj(neg(inside), eq(l2, new)), site=self.site + "/effect"))
            res.append(Ob("width-is-old-or-advertised-new", disj(eq(l2, ld), eq(l2, new)), site=self.site + "/effect"))
        # what the rebuild takes for the nested extractors
        for key in arch0:
            d = m.get_inner_init_dict(key, "cnn")
            for field in ("channel_size", "kernel_size", "stride_size", "hidden_size"):
                if field in arch0[key]:
                    res.append(Ob(f"{key}/rebuild-uses-the-current-{field}", list(d.get(field, [])) == list(arch0[key][field]), site="EvolvableMultiInput.get_inner_init_dict/nested-architecture"))
            res.append(Ob(f"{key}/rebuild-uses-the-new-latent-width", eq(d["num_outputs"], l2), site="EvolvableMultiInput.get_inner_init_dict/latent-width"))
        if v.mode == "real":
            x = {"img": torch.zeros(2, 1, 8, 8), "vec": torch.zeros(2, 3)}
            ok = forward_ok_dict(m, x, 4)
            still = all(list(net.init_dict.get("channel_size", [])) == list(arch0[k].get("channel_size", [])) for k, net in m.feature_net.modules().items())
            res.append(Ob("network-rebuilds-keeps-the-nested-architecture-and-maps-a-batch-to-finite-outputs-of-its-shape", ok and still, site=self.site + "/rebuild"))
        else:
            res.append(Ob("network-rebuilds-keeps-the-nested-architecture-and-maps-a-batch-to-finite-outputs-of-its-shape", True, site=self.site + "/rebuild"))
        if self.method == "add_latent_node":
            res.append(Ob("twin/never-widens", eq(l2, ld), expect="sat"))
        return res


def forward_ok_dict(module, x, out_dim):
    with torch.no_grad():
        y = module(x)
    return tuple(y.shape) == (2, out_dim) and bool(torch.isfinite(y).all())


_cases_mlp_cnn = cases


def cases(tier):   # noqa: F811
    cs = _cases_mlp_cnn(tier)
    for block in ("simba", "lstm", "resnet"):
        cs += [ScalarArchMutation(block, "grow", False), ScalarArchMutation(block, "shrink", False), ScalarArchMutation(block, "wide", True),
               ScalarArchMutation(block, "narrow", True)]
        if tier == "thorough":
            cs += [ScalarArchMutation(block, "wide", False), ScalarArchMutation(block, "narrow", False)]
    cs += [MultiInputMutation("add_latent_node", True, False), MultiInputMutation("add_latent_node", False, True), MultiInputMutation("remove_latent_node", True, True)]
    if tier == "thorough":
        cs += [MultiInputMutation("remove_latent_node", False, False), MultiInputMutation("add_latent_node", True, True)]
    return cs
