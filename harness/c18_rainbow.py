"""C18 — Rainbow's distributional target conserves probability mass and expected value; the per-sample loss /
priority is the cross-entropy between the projection and the online distribution of the action taken.

Real code executed: RainbowDQN._dqn_loss and RainbowDQN.learn (per / n-step / combined branches) of a real agent
whose actor / actor_target are stubs returning symbolic q-values, target distributions and online log-distributions.

The projected distribution is not returned by the code; it is recovered from the returned loss, which must be linear
in the online log-distribution:  proj_k = loss[log_p := -e_k].  The same recovery (extra calls of the real
_dqn_loss with unit log-distributions) is used in every value mode, and the identity
loss == -sum_k proj_k * log_p[a_taken, k] is an obligation of its own.
"""
from __future__ import annotations

import numpy as np
import torch
from gymnasium import spaces
from tensordict import TensorDict

from .common import *   # noqa: F401,F403
from .common import Case, Ob, require, val, elems, eq, le, lt, ge, gt, conj, disj, neg, all_eq, HarnessError, patched, ShimTorch, smin, smax, Recorder
from symx.core import ite, Sym, sym_pow
from symx.tensor import mk, _filled, SymTensor

import agilerl.algorithms.dqn_rainbow as rb_mod
import agilerl.utils.algo_utils as au
from agilerl.algorithms.dqn_rainbow import RainbowDQN

PROPERTY = "C18"


def shim_zeros(*size, dtype=None, device=None, **kw):
    if len(size) == 1 and isinstance(size[0], (tuple, list, torch.Size)):
        size = tuple(size[0])
    return mk(_filled(tuple(int(s) for s in size), 0), dtype or torch.float32)


class RainbowNet:
    """stand-in for RainbowQNetwork: q-values, per-action distributions and log-distributions are free symbols"""

    def __init__(self, tag):
        self.tag = tag
        self.out = {}
        self.calls = []
        self.noise_resets = 0

    def __call__(self, x, q=True, log=False):
        kind = "q" if (q and not log) else ("logdist" if log else "dist")
        self.calls.append((kind, x))
        o = self.out[kind]
        return o(x) if callable(o) else o

    def train(self, mode=True):
        return self

    def eval(self):
        return self

    def parameters(self):
        return iter(())

    def reset_noise(self):
        self.noise_resets += 1


def clipv(x, lo, hi):
    return smin(smax(x, lo), hi)


class Batch:
    """symbolic transition batch + network outputs for one call of _dqn_loss"""

    def __init__(self, v, tag, B, A, N, OD=1, sym_actions=True):
        self.S = v.tensor(f"{tag}s", (B, OD))
        self.NS = v.tensor(f"{tag}ns", (B, OD))
        self.R = v.tensor(f"{tag}r", (B, 1))
        self.D = v.tensor(f"{tag}d", (B, 1), "flag", dtype=v.float_dtype)
        if sym_actions:
            self.AC = v.tensor(f"{tag}a", (B, 1), "int")
            for b in range(B):
                v.assume(conj(val(self.AC, b, 0) >= 0, val(self.AC, b, 0) < A), "actions taken are valid action indices")
        else:
            self.AC = v.const_tensor([[(b + 1) % A] for b in range(B)], dtype=torch.int64)
        self.Q = v.tensor(f"{tag}q", (B, A))                 # online q(next_obs, .)
        self.P = v.tensor(f"{tag}p", (B, A, N))              # target distribution of next_obs per action
        for x in elems(self.P):
            v.assume(x >= 0, "target-network probabilities are >= 0 (not assumed normalised: the real head clamps after softmax)")
        self.LQ = v.tensor(f"{tag}lq", (B, A, N))            # online log-distribution of obs per action
        # decide the done flags up front (fork): (1 - d) * gamma * z is then linear in gamma, which keeps every query in
        # linear real arithmetic instead of z3's nonlinear solver
        if v.mode == "sym":
            for b in range(B):
                x = val(self.D, b, 0)
                if isinstance(x, Sym):
                    self.D._e[b, 0] = x.__index__()


class RainbowLoss(Case):
    functions = (RainbowDQN._dqn_loss,)
    stubs = ("actor / actor_target = RainbowNet stub: q-values, target distributions (>= 0) and online log-distributions are free symbols",
             "agilerl.algorithms.dqn_rainbow.torch -> ShimTorch with zeros() building a proxy tensor (sym/pconst modes only)")
    assumptions = ("done flags are 0/1", "0 <= gamma <= 1", "support v_min + k*delta_z with exactly representable delta_z")
    outside = ("softmax/clamp head of RainbowQNetwork, noisy layers (networks are stubs)", "float rounding of b=(Tz-v_min)/delta_z",
               "supports whose delta_z is not exactly representable")
    site = "RainbowDQN._dqn_loss"

    def __init__(self, N, vmin, vmax, B=1, A=2):
        self.N, self.vmin, self.vmax, self.B, self.A = N, float(vmin), float(vmax), B, A
        self.name = f"rainbow-loss-atoms{N}-[{vmin},{vmax}]-B{B}-A{A}"
        self.bounds = {"atoms": N, "v_min": vmin, "v_max": vmax, "batch": B, "actions": A,
                       "symbolic": "rewards, done flags, gamma, actions taken, online q-values, target probabilities, online log-probabilities, obs labels"}
        self._agent = None

    def agent(self):
        if self._agent is None:
            self._agent = RainbowDQN(spaces.Box(-1, 1, (1,)), spaces.Discrete(self.A), num_atoms=self.N, v_min=self.vmin,
                                     v_max=self.vmax, batch_size=self.B)
            dz = (self.vmax - self.vmin) / (self.N - 1)
            sup = [self.vmin + k * dz for k in range(self.N)]
            got = [float(x) for x in self._agent.support]
            # only the grid is a precondition of the case; the agent's own delta_z is consumed by the real _dqn_loss and is
            # part of what is decided (a spacing that disagrees with the support shows up in the projection obligations)
            if got != sup:
                raise HarnessError(f"support of the real agent is not the exact grid: {got} vs {sup}")
        return self._agent

    def patches(self, v, agent, actor, target):
        p = [(agent, "actor", actor), (agent, "actor_target", target)]
        if v.mode != "real":
            p += [(rb_mod, "torch", ShimTorch({"zeros": shim_zeros})), (au, "torch", ShimTorch())]
        return p

    def loss_and_proj(self, v, agent, bt, gamma, actor, target):
        """returns (loss list per row, proj[b][k]) using the real _dqn_loss"""
        B, A, N = self.B, self.A, self.N
        actor.out = {"q": bt.Q, "logdist": bt.LQ}
        target.out = {"dist": bt.P}
        loss = agent._dqn_loss(bt.S, bt.AC, bt.R, bt.NS, bt.D, gamma)
        if tuple(loss.shape) != (B,):
            raise HarnessError(f"_dqn_loss returned shape {tuple(loss.shape)}")
        L = [val(loss, b) for b in range(B)]
        proj = [[None] * N for _ in range(B)]
        if v.mode == "sym":
            import z3
            lq = bt.LQ._e
            acts = [val(bt.AC, b, 0) for b in range(B)]
            for b in range(B):
                for k in range(N):
                    subs = []
                    for b2 in range(B):
                        for a in range(A):
                            for j in range(N):
                                # unit log-dist on the row of the action taken (a symbolic index): -1 at atom k
                                if b2 == b and j == k:
                                    subs.append((lq[b2, a, j].z, z3.If(core.zint(acts[b]) == a, z3.RealVal(-1), z3.RealVal(0))))
                                else:
                                    subs.append((lq[b2, a, j].z, z3.RealVal(0)))
                    lz = L[b].z if isinstance(L[b], Sym) else core.zreal(L[b])
                    proj[b][k] = core.lower(z3.substitute(lz, *subs))
        else:
            for k in range(N):
                unit = np.zeros((B, A, N))
                for b in range(B):
                    unit[b, int(val(bt.AC, b, 0)), k] = -1.0
                actor.out["logdist"] = v.const_tensor(unit, dtype=v.float_dtype)
                lk = agent._dqn_loss(bt.S, bt.AC, bt.R, bt.NS, bt.D, gamma)
                for b in range(B):
                    proj[b][k] = val(lk, b)
            actor.out["logdist"] = bt.LQ
        return L, proj

    def projection_obligations(self, v, bt, gamma, L, proj, tag=""):
        B, A, N = self.B, self.A, self.N
        dz = (self.vmax - self.vmin) / (N - 1)
        z = [self.vmin + k * dz for k in range(N)]
        obs = []
        for b in range(B):
            r, d, a_taken = val(bt.R, b, 0), val(bt.D, b, 0), val(bt.AC, b, 0)
            tz = [clipv(r + (1 - d) * gamma * z[j], self.vmin, self.vmax) for j in range(N)]
            tz_noclip = [r + (1 - d) * gamma * z[j] for j in range(N)]
            mass = sum(proj[b][k] for k in range(N))
            mean = sum(proj[b][k] * z[k] for k in range(N))
            alts, alts_mass, alts_wrong = [], [], []
            for a in range(A):
                greedy = conj(*[ge(val(bt.Q, b, a), val(bt.Q, b, a2)) for a2 in range(A) if a2 != a])
                src = [val(bt.P, b, a, j) for j in range(N)]
                m_ok = eq(mass, sum(src))
                e_ok = eq(mean, sum(src[j] * tz[j] for j in range(N)))
                alts_mass.append(conj(greedy, m_ok))
                alts.append(conj(greedy, m_ok, e_ok))
                alts_wrong.append(conj(greedy, eq(mean, sum(src[j] * tz_noclip[j] for j in range(N)))))
            obs.append(Ob(f"{tag}row{b}/mass-of-greedy-source-row-conserved", disj(*alts_mass)))
            obs.append(Ob(f"{tag}row{b}/mass-and-mean-of-clipped-bellman-image", disj(*alts)))
            obs.append(Ob(f"{tag}row{b}/twin/mean-without-clipping", disj(*alts_wrong), expect="sat"))
            for k in range(N):
                obs.append(Ob(f"{tag}row{b}/proj{k}-nonnegative", ge(proj[b][k], 0)))
            # cross-entropy against the online log-distribution of the action taken (linear, that row only)
            ce = 0
            for a in range(A):
                row = sum(proj[b][k] * val(bt.LQ, b, a, k) for k in range(N))
                ce = ce + (ite(eq(a_taken, a), row, 0) if isinstance(a_taken, Sym) else (row if a_taken == a else 0))
            obs.append(Ob(f"{tag}row{b}/loss-is-cross-entropy-with-taken-action", eq(L[b], -ce)))
        return obs

    def run(self, v):
        agent = self.agent()
        require(agent, "actor", "actor_target", "support", "delta_z", "v_min", "v_max", "num_atoms", "batch_size")
        bt = Batch(v, "", self.B, self.A, self.N)
        gamma = v.real("gamma")
        v.assume(conj(gamma >= 0, gamma <= 1))
        actor, target = RainbowNet("actor"), RainbowNet("target")
        with patched(*self.patches(v, agent, actor, target)):
            L, proj = self.loss_and_proj(v, agent, bt, gamma, actor, target)
        obs = []
        # what the networks were asked: online q and target dist on next_obs, online log-dist on obs
        kinds = {k: x for k, x in actor.calls[:2]}
        obs.append(Ob("online-q-evaluated-on-next-obs", "q" in kinds and all_eq(kinds["q"], bt.NS), site="RainbowDQN._dqn_loss/net-inputs"))
        obs.append(Ob("online-logdist-evaluated-on-obs", "logdist" in kinds and all_eq(kinds["logdist"], bt.S), site="RainbowDQN._dqn_loss/net-inputs"))
        obs.append(Ob("target-dist-evaluated-on-next-obs", bool(target.calls) and target.calls[0][0] == "dist" and all_eq(target.calls[0][1], bt.NS),
                      site="RainbowDQN._dqn_loss/net-inputs"))
        obs += self.projection_obligations(v, bt, gamma, L, proj)
        flat = [x for row in proj for x in row]
        for o in obs:
            if o.name.endswith("mass-and-mean-of-clipped-bellman-image") and o.obs is None:
                o.obs = flat + L
                break
        return obs


class RainbowLearn(RainbowLoss):
    """learn(): which batch goes with which discount, how 1-step and n-step losses combine, what is returned as
    priorities / indices / scalar loss."""
    functions = (RainbowDQN.learn, RainbowDQN._dqn_loss)
    stubs = RainbowLoss.stubs + ("optimizer = recorder; clip_grad_norm_ = no-op; soft_update = recorder; backward = no-op",)
    site = "RainbowDQN.learn"

    def __init__(self, N, vmin, vmax, per, nstep, combined, B=1, A=2, n=3):
        RainbowLoss.__init__(self, N, vmin, vmax, B, A)
        self.per, self.nstep, self.combined, self.n = per, nstep, combined, n
        self.name = f"rainbow-learn-atoms{N}-B{B}-per{int(per)}-nstep{int(nstep)}-comb{int(combined)}"
        self.bounds = dict(self.bounds, per=per, n_step_batch=nstep, combined_reward=combined, n_step=n)

    def run(self, v):
        agent = self.agent()
        B, A, N = self.B, self.A, self.N
        require(agent, "actor", "actor_target", "optimizer", "soft_update", "gamma", "n_step", "combined_reward", "prior_eps")
        b1 = Batch(v, "", B, A, N, sym_actions=False)
        bn = Batch(v, "n_", B, A, N, sym_actions=False) if self.nstep else None
        gamma = v.real("gamma")
        v.assume(conj(gamma >= 0, gamma <= 1))
        W = v.tensor("w", (B,))
        IDX = v.const_tensor(np.arange(B) + 3, dtype=torch.int64)
        actor, target = RainbowNet("actor"), RainbowNet("target")

        # the networks answer per input: the stub distinguishes the 1-step and the n-step batch by input identity
        def route(kind, attr):
            def f(x):
                if bn is not None and (x is bn.S or x is bn.NS or (isinstance(x, torch.Tensor) and x.shape == bn.S.shape and all_eq_py(v, x, bn.NS if kind != "logdist" else bn.S))):
                    return getattr(bn, attr)
                return getattr(b1, attr)
            return f
        exp = TensorDict({"obs": b1.S, "action": b1.AC, "reward": b1.R, "next_obs": b1.NS, "done": b1.D}, batch_size=[B])
        if self.per:
            exp["weights"] = W
        if self.per or self.nstep:
            exp["idxs"] = IDX
        nexp = None
        if self.nstep:
            nexp = TensorDict({"obs": bn.S, "action": bn.AC, "reward": bn.R, "next_obs": bn.NS, "done": bn.D}, batch_size=[B])
        if self.nstep:
            # obs labels of the two batches must be distinguishable for the routing stub
            for x, y in zip(elems(b1.S) + elems(b1.NS), elems(bn.S) + elems(bn.NS)):
                v.assume(neg(eq(x, y)), "1-step and n-step batches carry distinct observation labels")
        actor.out = {"q": route("q", "Q"), "logdist": route("logdist", "LQ")}
        target.out = {"dist": route("dist", "P")}
        opt, soft = Recorder(), Recorder()
        patches = self.patches(v, agent, actor, target) + [
            (agent, "optimizer", opt), (agent, "soft_update", soft), (agent, "gamma", gamma), (agent, "n_step", self.n),
            (agent, "combined_reward", self.combined), (rb_mod, "clip_grad_norm_", lambda *a, **k: None)]
        if v.mode == "real":
            b1.LQ.requires_grad_()
            if bn is not None:
                bn.LQ.requires_grad_()
        with patched(*patches):
            ret = agent.learn(exp, n_experiences=nexp, per=self.per)
            loss, idxs, prios = ret
            # reference composition, from the (separately verified) real _dqn_loss
            actor.out = {"q": b1.Q, "logdist": b1.LQ}
            target.out = {"dist": b1.P}
            l1 = agent._dqn_loss(b1.S, b1.AC, b1.R, b1.NS, b1.D, gamma)
            ln = None
            if self.nstep:
                actor.out = {"q": bn.Q, "logdist": bn.LQ}
                target.out = {"dist": bn.P}
                ln = agent._dqn_loss(bn.S, bn.AC, bn.R, bn.NS, bn.D, sym_pow(gamma, self.n) if isinstance(gamma, Sym) else gamma ** self.n)
        obs = []
        ew = []
        for b in range(B):
            x1 = val(l1.detach() if isinstance(l1, torch.Tensor) else l1, b)
            if not self.nstep:
                e = x1
            elif self.combined:
                e = x1 + val(ln.detach(), b)
            else:
                e = val(ln.detach(), b)
            ew.append(e)
        if self.per:
            if prios is None:
                obs.append(Ob("priorities-returned", False))
            else:
                for b in range(B):
                    obs.append(Ob(f"row{b}/priority=per-sample-loss+prior_eps", eq(val(prios, b), ew[b] + agent.prior_eps)))
                    obs.append(Ob(f"row{b}/twin/priority=1-step-loss-only", eq(val(prios, b), val(l1.detach(), b) + agent.prior_eps),
                                  expect="sat" if self.nstep else "unsat"))
            mean = sum(ew[b] * val(W, b) for b in range(B)) / B
        else:
            obs.append(Ob("no-priorities-without-per", prios is None))
            mean = sum(ew) / B
        obs.append(Ob("scalar-loss-is-(weighted)-mean-of-per-sample-losses", eq(loss, mean)))
        if self.per or self.nstep:
            obs.append(Ob("indices-passed-through", idxs is not None and all_eq(idxs, IDX)))
        obs.append(Ob("one-optimizer-step", sum(1 for c in opt.calls if c == ("step",)) == 1))
        obs.append(Ob("soft-update-called-once-per-learn", len(soft.calls) == 1))
        return obs


def all_eq_py(v, x, y):
    """identity-free routing for the real mode: the real preprocess_observation returns new tensors"""
    if v.mode == "sym":
        xs, ys = elems(x), elems(y)
        return len(xs) == len(ys) and all((a is b) or (isinstance(a, Sym) and isinstance(b, Sym) and a.z.eq(b.z)) for a, b in zip(xs, ys))
    xs, ys = elems(x), elems(y)
    return len(xs) == len(ys) and all(float(a) == float(b) for a, b in zip(xs, ys))


def cases(tier):
    cs = [RainbowLoss(3, -2, 2), RainbowLoss(3, -1, 3), RainbowLoss(5, -2, 2), RainbowLoss(2, 0, 1, B=2),
          # supports that do not contain 0 (both bounds of one sign): spacing, offset and clamp must all be relative to v_min
          RainbowLoss(3, 1, 5), RainbowLoss(3, -5, -1),
          RainbowLearn(2, 0, 1, per=True, nstep=True, combined=True), RainbowLearn(2, 0, 1, per=True, nstep=True, combined=False),
          RainbowLearn(2, 0, 1, per=True, nstep=False, combined=False, B=2), RainbowLearn(2, 0, 1, per=False, nstep=True, combined=True),
          RainbowLearn(2, 0, 1, per=False, nstep=False, combined=False, B=2)]
    if tier == "thorough":
        # path counts grow quickly: ~2 x 3^(atoms-1) per batch row (squared for batch 2 and for learn() with an n-step batch)
        cs += [RainbowLoss(7, -3, 3), RainbowLoss(9, -4, 4), RainbowLoss(3, -1, 3, B=2), RainbowLoss(5, 0, 4, A=3), RainbowLoss(5, 0, 100),
               RainbowLearn(2, 0, 1, per=False, nstep=True, combined=False),
               RainbowLearn(3, -2, 2, per=True, nstep=True, combined=True),
               RainbowLoss(5, 1, 5), RainbowLoss(5, -9, -1), RainbowLearn(2, 1, 2, per=True, nstep=True, combined=True)]
    return cs
