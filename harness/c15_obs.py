"""C15 — observation handling is value-correct and batch-, agent- and env-consistent.

Real code executed: agilerl.utils.algo_utils.preprocess_observation / obs_to_tensor / maybe_add_batch_dim /
apply_image_normalization / get_vect_dim / concatenate_tensors, IPPO.preprocess_observation + IPPO.get_action's routing
through assemble/disassemble_homogeneous_outputs, MultiAgentRLAlgorithm.stack_critic_observations (MADDPG).
Symbolic: every observation element (integers in range for Discrete / MultiDiscrete / MultiBinary).
Concrete, enumerated: space kind and shape, container (ndarray, tensor, number, dict, tuple), batch form
(none, 1, B, (steps, envs)), number of agents / envs.
"""
from __future__ import annotations

import numpy as np
import torch
from gymnasium import spaces

from .common import *   # noqa: F401,F403
from .common import Case, Ob, require, val, elems, eq, le, lt, ge, gt, conj, disj, neg, all_eq, HarnessError, patched, ShimTorch, ShimNumpy
from symx.core import ite, Sym
from symx.tensor import SymTensor, mk

import agilerl.utils.algo_utils as au
import agilerl.algorithms.ippo as ippo_mod
from agilerl.algorithms.ippo import IPPO
from agilerl.algorithms.maddpg import MADDPG
from agilerl.algorithms.core.base import MultiAgentRLAlgorithm

PROPERTY = "C15"

SPACES = {
    "box0": spaces.Box(-1, 1, ()),
    "box1": spaces.Box(-1, 1, (3,)),
    "box2": spaces.Box(-1, 1, (2, 2)),
    "image": spaces.Box(low=np.array([[[0.0, 0.0], [0.0, 0.0]], [[10.0, 10.0], [-4.0, 2.0]]], dtype=np.float32),
                        high=np.array([[[255.0, 255.0], [255.0, 255.0]], [[20.0, 30.0], [4.0, 6.0]]], dtype=np.float32)),
    "image01": spaces.Box(0, 1, (2, 2, 2)),
    "image-inf": spaces.Box(low=np.zeros((2, 2, 2), dtype=np.float32), high=np.full((2, 2, 2), np.inf, dtype=np.float32)),
    "box4": spaces.Box(-1, 1, (1, 2, 1, 2)),
    "discrete3": spaces.Discrete(3),
    "discrete1": spaces.Discrete(1),
    "multidiscrete": spaces.MultiDiscrete([2, 3]),
    "multibinary": spaces.MultiBinary(3),
}


def net_input_shape(space):
    if isinstance(space, spaces.Discrete):
        return (int(space.n),)
    if isinstance(space, spaces.MultiDiscrete):
        return (int(sum(space.nvec)),)
    if isinstance(space, spaces.MultiBinary):
        return (int(space.n),)
    return tuple(space.shape)


def raw_shape(space):
    if isinstance(space, spaces.Discrete):
        return ()
    if isinstance(space, spaces.MultiDiscrete):
        return (len(space.nvec),)
    if isinstance(space, spaces.MultiBinary):
        return (int(space.n),)
    return tuple(space.shape)


def make_obs(v, name, space, lead, container):
    """symbolic observation of `space` with leading batch dims `lead` in the given container"""
    shp = tuple(lead) + raw_shape(space)
    if isinstance(space, spaces.Discrete):
        a = v.array(name, shp, "int")
        for x in (elems(a) if shp else [a]):
            v.assume(conj(x >= 0, x < int(space.n)), "discrete observations are valid indices")
    elif isinstance(space, spaces.MultiDiscrete):
        a = v.array(name, shp, "int")
        for idx in np.ndindex(*shp):
            v.assume(conj(a[idx] >= 0, a[idx] < int(space.nvec[idx[-1]])), "multi-discrete observations are valid indices")
    elif isinstance(space, spaces.MultiBinary):
        a = v.array(name, shp, "flag")
    else:
        a = v.array(name, shp)
    if container == "ndarray" and not shp and v.mode != "real":
        z = np.empty((), dtype=object)
        z[()] = a
        a = z
    if container == "tensor":
        if v.mode == "real":
            return torch.as_tensor(np.asarray(a))
        return mk(np.asarray(a, dtype=object)) if shp else mk(np.asarray(a, dtype=object).reshape(()))
    if container == "number":
        if shp:
            raise HarnessError("number container needs a scalar observation")
        return a if v.mode != "real" else (int(a) if isinstance(space, spaces.Discrete) else float(a))
    return a


def raw_elems(o):
    return elems(o)


def expected_row(space, raw, normalize=True):
    """reference: the network input for ONE observation given as a flat list of raw scalars (row-major)"""
    if isinstance(space, spaces.Discrete):
        x = raw[0]
        return [ite(eq(x, k), 1, 0) if isinstance(x, Sym) else (1 if x == k else 0) for k in range(int(space.n))]
    if isinstance(space, spaces.MultiDiscrete):
        out = []
        for x, n in zip(raw, space.nvec):
            out += [ite(eq(x, k), 1, 0) if isinstance(x, Sym) else (1 if x == k else 0) for k in range(int(n))]
        return out
    if isinstance(space, spaces.MultiBinary):
        return list(raw)
    if len(space.shape) == 3 and normalize:
        low, high = space.low.reshape(-1), space.high.reshape(-1)
        bypass = np.isinf(high).any() or np.isinf(low).any() or (np.all(space.high == 1) and np.all(space.low == 0))
        if not bypass:
            return [(x - float(l)) / (float(h) - float(l)) for x, l, h in zip(raw, low, high)]
    return list(raw)


class Prep(Case):
    functions = (au.preprocess_observation, au.obs_to_tensor, au.maybe_add_batch_dim, au.apply_image_normalization)
    stubs = ("agilerl.utils.algo_utils.torch -> ShimTorch (tensor/as_tensor accept proxy arrays) in the symbolic modes",)
    assumptions = ("Discrete / MultiDiscrete observations are valid indices, MultiBinary entries are 0/1",)
    outside = ("what a real network computes from the prepared tensor (torch kernels)",)
    site = "preprocess_observation"

    def __init__(self, space, lead, container="ndarray", normalize=True):
        self.space_name, self.lead, self.container, self.normalize = space, tuple(lead), container, normalize
        self.space = SPACES[space]
        self.name = f"prep-{space}-lead{'x'.join(map(str, lead)) or 'none'}-{container}" + ("" if normalize else "-nonorm")
        self.bounds = {"space": str(self.space), "leading_dims": list(lead), "container": container, "normalize_images": normalize,
                       "symbolic": "every observation element"}

    def run(self, v):
        space, lead = self.space, self.lead
        obs = make_obs(v, "obs", space, lead, self.container)
        patches = [(au, "torch", ShimTorch())] if v.mode != "real" else []
        with patched(*patches):
            out = au.preprocess_observation(obs, space, "cpu", self.normalize)
        n = int(np.prod(lead)) if lead else 1
        want_shape = (n,) + net_input_shape(space)
        res = [Ob("is-a-float-tensor", isinstance(out, torch.Tensor) and out.dtype in (torch.float32, torch.float64)),
               Ob("shape-is-(number-of-observations,)+network-input-shape", tuple(out.shape) == want_shape, site=self.site + "/shape")]
        if tuple(out.shape) != want_shape:
            return res
        raw = raw_elems(obs)
        per = len(raw) // n
        flat_out = elems(out)
        width = len(flat_out) // n
        for i in range(n):
            exp = expected_row(space, raw[i * per:(i + 1) * per], self.normalize)
            res.append(Ob(f"row{i}/value-correct-(one-hot/scaled/identity)", conj(*[eq(a, b) for a, b in zip(flat_out[i * width:(i + 1) * width], exp)]),
                          site=self.site + "/values"))
        # batch consistency: preparing observation i on its own gives row i
        if n > 1 and self.container in ("ndarray", "tensor"):
            flat_obs = obs.reshape((n,) + raw_shape(space))
            for i in range(n):
                with patched(*patches):
                    single = au.preprocess_observation(flat_obs[i], space, "cpu", self.normalize)
                res.append(Ob(f"row{i}/same-as-preparing-the-observation-alone",
                              tuple(single.shape) == (1,) + net_input_shape(space) and all_eq(elems(single), flat_out[i * width:(i + 1) * width]),
                              site=self.site + "/batch-consistency"))
        if isinstance(space, spaces.Discrete) and int(space.n) > 1:
            res.append(Ob("twin/one-hot-at-value-plus-one", conj(*[eq(flat_out[k], ite(eq(raw[0], k - 1), 1, 0) if isinstance(raw[0], Sym) else int(raw[0] == k - 1))
                                                                    for k in range(int(space.n))]), expect="sat"))
        return res


class PrepComposite(Case):
    functions = (au.preprocess_observation,)
    stubs = Prep.stubs
    assumptions = Prep.assumptions
    site = "preprocess_observation/composite"

    def __init__(self, kind, lead, tensordict=False, normalize=True):
        self.kind, self.lead, self.tensordict, self.normalize = kind, tuple(lead), tensordict, normalize
        self.name = f"prep-{kind}-lead{'x'.join(map(str, lead)) or 'none'}" + ("-tensordict" if tensordict else "") + ("" if normalize else "-nonorm")
        self.members = [("a", "box1"), ("b", "discrete3"), ("c", "image")]
        self.bounds = {"container_space": kind, "members": [m for _, m in self.members], "leading_dims": list(lead), "symbolic": "every observation element"}

    def run(self, v):
        mem = [(k, SPACES[s]) for k, s in self.members]
        if self.kind == "dict":
            space = spaces.Dict({k: s for k, s in mem})
            obs = {k: make_obs(v, f"obs_{k}", s, self.lead, "tensor" if self.tensordict else "ndarray") for k, s in mem}
            if self.tensordict:
                from tensordict import TensorDict
                raw_view = dict(obs)
                obs = TensorDict(obs, batch_size=list(self.lead))
        else:
            space = spaces.Tuple([s for _, s in mem])
            obs = tuple(make_obs(v, f"obs_{k}", s, self.lead, "ndarray") for k, s in mem)
        patches = [(au, "torch", ShimTorch())] if v.mode != "real" else []
        with patched(*patches):
            out = au.preprocess_observation(obs, space, "cpu", self.normalize)
        n = int(np.prod(self.lead)) if self.lead else 1
        res = [Ob("container-kind-kept", isinstance(out, dict) if self.kind == "dict" else isinstance(out, tuple))]
        for j, (k, s) in enumerate(mem):
            o = out[k] if self.kind == "dict" else out[j]
            raw = raw_elems((raw_view[k] if self.tensordict else obs[k]) if self.kind == "dict" else obs[j])
            want = (n,) + net_input_shape(s)
            res.append(Ob(f"member-{k}/shape", tuple(o.shape) == want))
            if tuple(o.shape) != want:
                continue
            per, width, flat = len(raw) // n, len(elems(o)) // n, elems(o)
            for i in range(n):
                exp = expected_row(s, raw[i * per:(i + 1) * per], self.normalize)
                res.append(Ob(f"member-{k}/row{i}/handled-like-the-member-space-alone", conj(*[eq(a, b) for a, b in zip(flat[i * width:(i + 1) * width], exp)])))
        return res


class VectDim(Case):
    functions = (au.get_vect_dim,)
    site = "get_vect_dim"

    def __init__(self, space, lead):
        self.space_name, self.lead = space, tuple(lead)
        self.name = f"vectdim-{space}-lead{'x'.join(map(str, lead)) or 'none'}"
        self.bounds = {"space": space, "leading_dims": list(lead)}
        self.exception_site = "get_vect_dim/multibinary-int-vs-tuple" if space == "multibinary" else None

    def run(self, v):
        if self.space_name in ("dict", "tuple"):
            mem = [("a", SPACES["box1"]), ("b", SPACES["discrete3"])]
            space = spaces.Dict(dict(mem)) if self.space_name == "dict" else spaces.Tuple([s for _, s in mem])
            obs = {k: make_obs(v, f"o{k}", s, self.lead, "ndarray") for k, s in mem}
            if self.space_name == "tuple":
                obs = tuple(obs.values())
        else:
            space = SPACES[self.space_name]
            obs = make_obs(v, "o", space, self.lead, "ndarray")
        got = au.get_vect_dim(obs, space)
        want = self.lead[0] if self.lead else 1
        return [Ob("number-of-stacked-observations", got == want, site=self.exception_site or self.site)]


class IPPORouting(Case):
    """IPPO.get_action: rows of the shared policy's batch are (agent, env) pairs; each agent/env gets back the output
    computed from its own observation"""
    functions = (IPPO.get_action, IPPO.preprocess_observation, MultiAgentRLAlgorithm.disassemble_homogeneous_outputs, au.concatenate_tensors,
                 au.get_vect_dim)
    stubs = ("actor / critic = stubs returning fresh symbols per input row (recorded together with their input)",
             "agilerl.utils.algo_utils.torch -> ShimTorch in the symbolic modes")
    assumptions = ("observation labels pairwise distinct (rows are identified by their observation)",)
    site = "IPPO.get_action/routing"

    def __init__(self, A, E, ids=None):
        self.A, self.E, self.ids = A, E, ids
        self.name = f"ippo-routing-A{A}-E{E}" + ("" if ids is None else "-ids-" + ".".join(ids))
        self.bounds = {"homogeneous_agents": A, "num_envs": E, "agent_ids_in_construction_order": ids or "ag_0..", "symbolic": "observations, per-row policy outputs"}
        self._agent = None

    def agent(self):
        if self._agent is None:
            ids = list(self.ids) if self.ids else [f"ag_{i}" for i in range(self.A)]
            self._agent = IPPO([spaces.Box(-1, 1, (2,))] * self.A, [spaces.Discrete(3)] * self.A, agent_ids=ids)
        return self._agent

    def run(self, v):
        A, E = self.A, self.E
        agent = self.agent()
        ids = list(agent.agent_ids)
        require(agent, "actors", "critics", "preprocess_observation", "disassemble_homogeneous_outputs")
        obs = {a: v.array(f"o_{a}", (E, 2)) for a in ids}
        labels = [x for a in ids for x in elems(obs[a])]
        for i in range(len(labels)):
            for j in range(i):
                v.assume(neg(eq(labels[i], labels[j])))
        seen = {}

        class Actor:
            squash_output = False

            def __call__(self, x, action_mask=None):
                n = x.shape[0]
                seen["x"] = x
                seen["act"], seen["lp"], seen["ent"] = v.tensor("act", (n,)), v.tensor("lp", (n,)), v.tensor("ent", (n,))
                return seen["act"], seen["lp"], seen["ent"]

            def eval(self):
                return self

            def train(self, m=True):
                return self

        class Critic(Actor):
            def __call__(self, x):
                seen["val"] = v.tensor("val", (x.shape[0], 1))
                return seen["val"]

        patches = [(agent, "actors", [Actor()]), (agent, "critics", [Critic()])]
        if v.mode != "real":
            patches.append((au, "torch", ShimTorch()))
        with patched(*patches):
            acts, lps, ents, vals = agent.get_action(obs)
        res = []
        x = seen.get("x")
        res.append(Ob("policy-batch-has-one-row-per-(agent,env)", x is not None and x.shape[0] == A * E))
        if x is None or x.shape[0] != A * E:
            return res
        for a in ids:
            for e in range(E):
                def pick(t):
                    r = None
                    for i in reversed(range(A * E)):
                        hit = all_eq(x[i], obs[a][e])
                        r = val(t, i) if r is None else ite(hit, val(t, i), r)
                    return r
                found = disj(*[all_eq(x[i], obs[a][e]) for i in range(A * E)])
                res.append(Ob(f"{a}/env{e}/its-observation-is-a-row-of-the-policy-batch", found))
                res.append(Ob(f"{a}/env{e}/gets-the-action-logprob-entropy-value-computed-from-its-own-observation",
                              conj(eq(val(acts[a][e]), pick(seen["act"])), eq(val(lps[a][e]), pick(seen["lp"])), eq(val(ents[a][e]), pick(seen["ent"])),
                                   eq(val(vals[a][e]), pick(seen["val"].reshape(-1) if v.mode == "real" else seen["val"].reshape(-1)))),
                              site=self.site))
        return res


class CriticStack(Case):
    functions = (MultiAgentRLAlgorithm.stack_critic_observations,)
    site = "stack_critic_observations"

    def __init__(self, N, B):
        self.N, self.B = N, B
        self.name = f"critic-stack-N{N}-B{B}"
        self.bounds = {"agents": N, "batch": B, "symbolic": "observations"}
        self._agent = None

    def agent(self):
        if self._agent is None:
            ids = [f"ag_{i}" for i in range(self.N)]
            self._agent = MADDPG([spaces.Box(-1, 1, (2,))] * self.N, [spaces.Box(-1, 1, (1,))] * self.N, agent_ids=ids,
                                 net_config={"encoder_config": {"hidden_size": [2]}, "head_config": {"hidden_size": [2]}})
        return self._agent

    def run(self, v):
        agent = self.agent()
        ids = list(agent.agent_ids)
        obs = {a: v.tensor(f"o_{a}", (self.B, 2)) for a in ids}
        out = agent.stack_critic_observations(obs)
        res = [Ob("shape", tuple(out.shape) == (self.B, 2 * self.N))]
        if tuple(out.shape) != (self.B, 2 * self.N):
            return res
        for b in range(self.B):
            for j, a in enumerate(ids):
                res.append(Ob(f"row{b}/agent{j}'s-observation-sits-at-agent{j}'s-position", all_eq(out[b, 2 * j:2 * j + 2], obs[a][b])))
        return res


def cases(tier):
    cs = []
    for sp in ("box0", "box1", "box2", "image", "image01", "image-inf", "discrete3", "discrete1", "multidiscrete", "multibinary"):
        for lead in ((), (1,), (2,)):
            cs.append(Prep(sp, lead))
    cs += [Prep("box1", (2, 2)), Prep("discrete3", (2, 2)), Prep("multidiscrete", (2, 2)), Prep("image", (2,), normalize=False), Prep("box4", (2,)),
           Prep("box1", (2,), "tensor"), Prep("discrete3", (2,), "tensor"), Prep("box0", (), "number"), Prep("discrete3", (), "number"),
           Prep("image", (2,), "tensor"), Prep("multibinary", (2, 2))]
    cs += [PrepComposite("dict", ()), PrepComposite("dict", (2,)), PrepComposite("tuple", (2,)), PrepComposite("tuple", ()), PrepComposite("dict", (2,), tensordict=True),
           PrepComposite("tuple", (2,), normalize=False), PrepComposite("dict", (), normalize=False)]
    for sp in ("box1", "box0", "image", "discrete3", "multidiscrete", "multibinary", "dict", "tuple"):
        cs += [VectDim(sp, ()), VectDim(sp, (3,))]
    cs += [IPPORouting(2, 2), IPPORouting(3, 1), IPPORouting(1, 2), CriticStack(2, 2), CriticStack(3, 1),
           IPPORouting(3, 2, ids=["ag_2", "ag_10", "ag_1"]), IPPORouting(2, 1, ids=["ag_b", "ag_a"])]
    if tier == "thorough":
        for sp in ("box2", "image", "multidiscrete", "discrete3", "box4"):
            cs += [Prep(sp, (3,)), Prep(sp, (2, 3))]
        cs += [IPPORouting(3, 2), IPPORouting(2, 3), CriticStack(3, 3), PrepComposite("dict", (2, 2))]
    return cs
