"""Shared helpers for harnesses: stub networks, capture points, agent construction."""
from __future__ import annotations

import warnings

import numpy as np
import torch

from symx import core
from symx.core import StopRun, HarnessError
from symx.shim import ShimTorch, ShimNumpy, patched, require
from symx.tensor import SymTensor, mk
from symx.values import V, val, elems, eq, le, lt, ge, gt, conj, disj, neg, implies, all_eq, smax, smin
from symx.case import Case, Ob

warnings.filterwarnings("ignore")


class Capture(BaseException):
    """raised by a capture stub to stop the real code at the observation point"""


class StubNet:
    """Stand-in for a neural network inside learn()/get_action(): returns fresh symbolic outputs of a fixed
    shape (an uninterpreted function of its input: same input object => same output) and logs the call."""

    def __init__(self, v: V, name, out_shape_fn, kind="real", params=None):
        self.v = v
        self.name = name
        self.out_shape_fn = out_shape_fn
        self.kind = kind
        self.calls = []
        self._memo = []
        self.training = True
        self._params = params or []

    def __call__(self, x, *a, **k):
        for xin, out in self._memo:
            if xin is x:
                return out
        shape = self.out_shape_fn(x, *a, **k)
        out = self.v.tensor(f"{self.name}.out{len(self.calls)}", shape, self.kind)
        self.calls.append((x, a, k, out))
        self._memo.append((x, out))
        return out

    def eval(self):
        self.training = False
        return self

    def train(self, mode=True):
        self.training = mode
        return self

    def parameters(self):
        return iter(self._params)

    def state_dict(self):
        return {f"p{i}": p for i, p in enumerate(self._params)}

    def to(self, *a, **k):
        return self


class Recorder:
    """no-op optimizer / criterion recorder"""

    def __init__(self, ret=None):
        self.calls = []
        self.ret = ret

    def __call__(self, *a, **k):
        self.calls.append((a, k))
        return self.ret(*a, **k) if callable(self.ret) else self.ret

    def zero_grad(self, *a, **k):
        self.calls.append(("zero_grad",))

    def step(self, *a, **k):
        self.calls.append(("step",))


def batch_of(x):
    if isinstance(x, dict):
        return batch_of(next(iter(x.values())))
    if isinstance(x, (tuple, list)):
        return batch_of(x[0])
    return x.shape[0]
