"""C08 — value-based learners use the Bellman target r + gamma*(1-done)*V_target(next) and really track their
target networks: target <- tau*online + (1-tau)*target after each (policy-delay) learn step.

Real code executed:
  (i)   DQN.learn/update (plain, double), CQN.learn, DDPG.learn, TD3.learn, MADDPG.learn/_learn_individual,
        MATD3.learn/_learn_individual on real agent instances whose networks are stubs (uninterpreted functions of
        their inputs), with symbolic rewards, done flags, actions, network outputs, gamma, noise, learn counter;
  (ii)  the real soft_update of every learner (DQN, CQN, RainbowDQN, DDPG, TD3, MADDPG, MATD3) on the agent's REAL
        networks (concrete seeded weights, online != target) with a SYMBOLIC tau: in-place writes into real tensors are
        captured in a shadow store; every tensor the target module holds must equal tau*online + (1-tau)*previous for
        all tau in (0,1]; also on a clone of the agent.
"""
from __future__ import annotations

import numpy as np
import torch
from gymnasium import spaces
from tensordict import TensorDict

from .common import *   # noqa: F401,F403
from .common import Case, Ob, require, val, elems, eq, le, lt, ge, gt, conj, disj, neg, all_eq, HarnessError, patched, ShimTorch, smin, smax, Recorder
from symx.core import ite, Sym
from symx import tensor as T
from symx.tensor import mk, SymTensor

import agilerl.algorithms.dqn as dqn_mod
import agilerl.algorithms.cqn as cqn_mod
import agilerl.algorithms.ddpg as ddpg_mod
import agilerl.algorithms.td3 as td3_mod
import agilerl.algorithms.maddpg as maddpg_mod
import agilerl.algorithms.matd3 as matd3_mod
import agilerl.utils.algo_utils as au
from agilerl.algorithms.dqn import DQN
from agilerl.algorithms.cqn import CQN
from agilerl.algorithms.ddpg import DDPG
from agilerl.algorithms.td3 import TD3
from agilerl.algorithms.maddpg import MADDPG
from agilerl.algorithms.matd3 import MATD3
from agilerl.algorithms.dqn_rainbow import RainbowDQN

PROPERTY = "C08"
TINY = {"encoder_config": {"hidden_size": [2]}, "head_config": {"hidden_size": [2]}}


def key_of(x):
    """content key of a tensor / structure (syntactic for symbols): the stub networks are FUNCTIONS of their input"""
    out = []
    for e in elems(x) if not isinstance(x, dict) else [y for k in sorted(x) for y in elems(x[k])]:
        out.append(e.z.sexpr() if isinstance(e, Sym) else repr(float(e)))
    return tuple(out)


class FnNet:
    """uninterpreted function of its inputs: same input contents => same output; every call is logged with a COPY of
    its input contents (the batch may be mutated in place afterwards)"""

    def __init__(self, v, name, out_shape, params=0):
        self.v, self.name, self.out_shape = v, name, out_shape
        self.calls = []          # (keys, inputs_elems, output)
        self.memo = {}
        self.training = True
        self._params = [P(v.tensor(f"{name}.w{i}", (2,))) for i in range(params)]

    def __call__(self, *xs, **k):
        keys = tuple(key_of(x) for x in xs)
        if keys in self.memo:
            out = self.memo[keys]
        else:
            out = self.v.tensor(f"{self.name}.out{len(self.memo)}", self.out_shape(*xs))
            if self.v.mode == "real":
                out.requires_grad_()
            self.memo[keys] = out
        self.calls.append((keys, [list(elems(x)) if not isinstance(x, dict) else [y for kk in sorted(x) for y in elems(x[kk])] for x in xs], out))
        return out

    def find(self, *xs):
        """output for the call whose inputs had exactly these contents (None if never called with them)"""
        keys = tuple(key_of(x) for x in xs)
        return self.memo.get(keys)

    def train(self, mode=True):
        return self

    def eval(self):
        return self

    def parameters(self):
        return iter(self._params)

    def no_sync(self):
        import contextlib
        return contextlib.nullcontext()


class P:
    def __init__(self, t):
        self.data = t


class LossStub:
    def __init__(self, v):
        self.v = v
        self.calls = []

    def __call__(self, a, b):
        self.calls.append((a, b))
        if self.v.mode == "real":
            return torch.zeros((), requires_grad=True) + 0.0
        return mk(T._objarr(0), torch.float32)


def rows_eq(t, rows):
    """tensor t (B, k) equals the nested list rows"""
    return all_eq(t, [x for r in rows for x in r])


def batch(v, B, OD, AD=None, A=None, tag=""):
    S, NS = v.tensor(f"{tag}s", (B, OD)), v.tensor(f"{tag}ns", (B, OD))
    R = v.tensor(f"{tag}r", (B, 1))
    D = v.tensor(f"{tag}d", (B, 1), "flag", dtype=v.float_dtype)
    if A is not None:
        AC = v.tensor(f"{tag}a", (B, 1), "int")
        for b in range(B):
            v.assume(conj(val(AC, b, 0) >= 0, val(AC, b, 0) < A), "actions taken are valid action indices")
    else:
        AC = v.tensor(f"{tag}a", (B, AD))
    # the stubs tell calls apart by the contents of their input: a replay model in which obs and next_obs coincide could
    # not show which of the two a network was evaluated on (a wish for replay models only, never an assumption)
    v.prefer(neg(eq(val(S, 0, 0), val(NS, 0, 0))))
    return S, AC, R, NS, D


COMMON_ASSUME = ("done flags are 0/1", "observation labels are free symbols (network stubs are functions of their input contents)")


class QLearn(Case):
    """DQN / CQN: the pair handed to the criterion is (Q(s, a_taken), r + gamma*(1-d)*V') and the soft update runs once"""
    stubs = ("actor / actor_target = uninterpreted functions of their input with symbolic parameters", "criterion, optimizer = recorders",
             "clip_grad_norm_ = no-op (CQN)", "logsumexp regulariser of CQN: exp/log uninterpreted, not judged")
    assumptions = COMMON_ASSUME
    outside = ("that the optimiser minimises the loss (autograd)", "CQL regulariser value")

    def __init__(self, algo, double, B=2, A=2):
        self.algo, self.double, self.B, self.A = algo, double, B, A
        self.cls = {"DQN": DQN, "CQN": CQN}[algo]
        self.mod = {"DQN": dqn_mod, "CQN": cqn_mod}[algo]
        self.functions = (self.cls.learn, self.cls.soft_update) + ((DQN.update,) if algo == "DQN" else ())
        self.name = f"{algo.lower()}-learn-{'double' if double else 'plain'}-B{B}-A{A}"
        self.site = f"{algo}.learn"
        self.bounds = {"batch": B, "actions": A, "double": double,
                       "symbolic": "rewards, dones, actions taken, Q(s,.), Q(s',.), Q_target(s',.), gamma, tau, network parameters"}
        self._agent = None

    def agent(self):
        if self._agent is None:
            self._agent = self.cls(spaces.Box(-1, 1, (1,)), spaces.Discrete(self.A), batch_size=self.B, net_config=TINY)
        return self._agent

    def run(self, v):
        B, A = self.B, self.A
        agent = self.agent()
        require(agent, "actor", "actor_target", "criterion", "optimizer", "gamma", "tau", "double", "soft_update")
        S, AC, R, NS, D = batch(v, B, 1, A=A)
        gamma, tau = v.real("gamma"), v.real("tau")
        v.assume(conj(tau > 0, tau <= 1), "0 < tau <= 1")
        actor = FnNet(v, "actor", lambda x: (B, A), params=2)
        target = FnNet(v, "target", lambda x: (B, A), params=2)
        w0 = [list(elems(p.data)) for p in actor._params]
        t0 = [list(elems(p.data)) for p in target._params]
        crit, opt, soft = LossStub(v), Recorder(), Recorder()
        patches = [(agent, "actor", actor), (agent, "actor_target", target), (agent, "criterion", crit), (agent, "optimizer", opt),
                   (agent, "gamma", gamma), (agent, "tau", tau), (agent, "double", self.double)]
        if self.algo == "DQN":
            # DQN's soft update works on the detached tensors of its REAL networks (target_params/param_vals), not on
            # module parameters: with stub networks only the call is observable; the update itself is the
            # softupdate-real-dqn-* cases
            patches.append((agent, "soft_update", soft))
        if self.algo == "CQN":
            patches.append((cqn_mod, "clip_grad_norm_", lambda *a, **k: None))
        if v.mode != "real":
            patches.append((au, "torch", ShimTorch()))
        exp = TensorDict({"obs": S, "action": AC, "reward": R, "next_obs": NS, "done": D}, batch_size=[B])
        with patched(*patches):
            agent.learn(exp if self.algo == "DQN" else (S, AC, R, NS, D))
        obs = []
        obs.append(Ob("criterion-called-once", len(crit.calls) == 1))
        if len(crit.calls) != 1:
            return obs
        q_eval, y = crit.calls[0]
        Q, Qn, Tn = actor.find(S), actor.find(NS), target.find(NS)
        obs.append(Ob("online-net-evaluated-on-obs", Q is not None, site=self.site + "/net-inputs"))
        obs.append(Ob("target-net-evaluated-on-next-obs", Tn is not None, site=self.site + "/net-inputs"))
        if Q is None or Tn is None or (self.double and Qn is None):
            obs.append(Ob("online-net-evaluated-on-next-obs-(double)", Qn is not None or not self.double, site=self.site + "/net-inputs"))
            return obs
        for b in range(B):
            r, d, a = val(R, b, 0), val(D, b, 0), val(AC, b, 0)
            qa = val(Q, b, 0)
            for k in range(1, A):
                qa = ite(eq(a, k), val(Q, b, k), qa) if isinstance(a, Sym) else (val(Q, b, k) if a == k else qa)
            obs.append(Ob(f"row{b}/prediction-is-Q(s,a_taken)", eq(val(q_eval, b, 0), qa)))
            tn = [val(Tn, b, k) for k in range(A)]
            if self.double:
                qn = [val(Qn, b, k) for k in range(A)]
                alts = [conj(*[ge(qn[k], qn[j]) for j in range(A) if j != k], eq(val(y, b, 0), r + gamma * (1 - d) * tn[k])) for k in range(A)]
                obs.append(Ob(f"row{b}/target=r+gamma(1-d)Qt(s',argmax_a Q(s',a))", disj(*alts)))
            else:
                obs.append(Ob(f"row{b}/target=r+gamma(1-d)max_a Qt(s',a)", eq(val(y, b, 0), r + gamma * (1 - d) * smax(*tn))))
            obs.append(Ob(f"row{b}/done-transition-ignores-next-observation", disj(neg(eq(d, 1)), eq(val(y, b, 0), r))))
            obs.append(Ob(f"row{b}/twin/target-without-(1-done)", eq(val(y, b, 0), r + gamma * smax(*tn)), expect="sat" if not self.double else "sat"))
        if self.algo == "DQN":
            obs.append(Ob("soft-update-called-once-per-learn-step", len(soft.calls) == 1, site=self.site + "/soft-update"))
        # soft update on the stub parameters (symbolic weights): every target parameter blends, online untouched
        for i, (pw, pt) in enumerate(zip(actor._params, target._params) if self.algo != "DQN" else ()):
            obs.append(Ob(f"param{i}/target=tau*online+(1-tau)*previous", conj(*[eq(x, tau * w + (1 - tau) * t) for x, w, t in zip(elems(pt.data), w0[i], t0[i])]),
                          site=self.site + "/soft-update"))
            obs.append(Ob(f"param{i}/online-untouched-by-soft-update", conj(*[eq(x, w) for x, w in zip(elems(pw.data), w0[i])]), site=self.site + "/soft-update"))
        obs.append(Ob("one-optimizer-step", sum(1 for c in opt.calls if c == ("step",)) == 1))
        return obs


class ACLearn(Case):
    """DDPG / TD3"""
    stubs = ("actor(_target), critic(_target)(s) = uninterpreted functions of their inputs", "criterion, optimizers, soft_update = recorders",
             "Tensor.normal_ -> arbitrary reals (the policy noise)")
    assumptions = COMMON_ASSUME + ("learn_counter >= 0",)
    outside = ("that the optimisers minimise the losses (autograd)",)

    def __init__(self, algo, B=2, freq=2, int_done=False):
        self.algo, self.B, self.freq, self.int_done = algo, B, freq, int_done
        self.cls = {"DDPG": DDPG, "TD3": TD3}[algo]
        self.functions = (self.cls.learn, self.cls.multi_dim_clamp)
        self.name = f"{algo.lower()}-learn-B{B}-freq{freq}" + ("-integer-done-flags" if int_done else "")
        self.site = f"{algo}.learn"
        self.bounds = {"batch": B, "action_dims": 2, "policy_freq": freq,
                       "symbolic": "rewards, dones, actions, all network outputs, policy noise, gamma, learn_counter"}
        self._agent = None

    LOW, HIGH = [-1.0, -2.0], [1.0, 3.0]

    def agent(self):
        if self._agent is None:
            self._agent = self.cls(spaces.Box(-1, 1, (1,)), spaces.Box(np.array(self.LOW, dtype=np.float32), np.array(self.HIGH, dtype=np.float32)),
                                   batch_size=self.B, share_encoders=False, net_config=TINY, policy_freq=self.freq)
        return self._agent

    def run(self, v):
        B, td3 = self.B, self.algo == "TD3"
        agent = self.agent()
        crit_names = ["critic_1", "critic_2"] if td3 else ["critic"]
        targ_names = ["critic_target_1", "critic_target_2"] if td3 else ["critic_target"]
        copt_names = ["critic_1_optimizer", "critic_2_optimizer"] if td3 else ["critic_optimizer"]
        require(agent, "actor", "actor_target", "criterion", "actor_optimizer", "gamma", "learn_counter", "policy_freq", "soft_update",
                "min_action", "max_action", *crit_names, *targ_names, *copt_names)
        S, AC, R, NS, D = batch(v, B, 1, AD=2)
        if self.int_done:
            # done flags as an integer tensor (an offline dataset, a custom buffer): the target must not depend on their dtype
            D = (mk(np.array(D._e, dtype=object, copy=True), torch.int64) if v.mode != "real" else D.to(torch.int64))
        ac0 = [[val(AC, b, k) for k in range(2)] for b in range(B)]
        gamma = v.real("gamma")
        counter = v.int("learn_counter")
        v.assume(counter >= 0)
        actor, actor_t = FnNet(v, "actor", lambda x: (B, 2)), FnNet(v, "actor_target", lambda x: (B, 2))
        crits = [FnNet(v, n, lambda s, a: (B, 1)) for n in crit_names]
        targs = [FnNet(v, n, lambda s, a: (B, 1)) for n in targ_names]
        crit, soft = LossStub(v), Recorder()
        aopt, copts = Recorder(), [Recorder() for _ in copt_names]
        noise_log = []

        def provider(kind, shape, *params):
            t = v.tensor("noise", shape)
            noise_log.append(t)
            return t

        def fake_normal_(self_, mean=0, std=1, **k):
            t = provider("normal", tuple(self_.shape))
            with torch.no_grad():
                self_.copy_(t)
            return self_

        patches = [(agent, "actor", actor), (agent, "actor_target", actor_t), (agent, "criterion", crit), (agent, "actor_optimizer", aopt),
                   (agent, "gamma", gamma), (agent, "learn_counter", counter), (agent, "soft_update", soft)]
        patches += [(agent, n, c) for n, c in zip(crit_names, crits)] + [(agent, n, c) for n, c in zip(targ_names, targs)]
        patches += [(agent, n, c) for n, c in zip(copt_names, copts)]
        if v.mode != "real":
            import importlib
            patches += [(au, "torch", ShimTorch()), (T.RNG, "provider", provider), (importlib.import_module(self.cls.__module__), "torch", ShimTorch())]
        else:
            patches.append((torch.Tensor, "normal_", fake_normal_))
        noise_clip = 0.5
        exp = TensorDict({"obs": S, "action": AC, "reward": R, "next_obs": NS, "done": D}, batch_size=[B])
        with patched(*patches):
            if td3:
                agent.learn((S, AC, R, NS, D), noise_clip=noise_clip)
            else:
                agent.learn(exp, noise_clip=noise_clip)
            new_counter = agent.learn_counter
        obs = []
        ncalls = 2 if td3 else 1
        obs.append(Ob("criterion-called-per-critic", len(crit.calls) == ncalls))
        if len(crit.calls) != ncalls or len(noise_log) != 1:
            obs.append(Ob("one-noise-draw", len(noise_log) == 1))
            return obs
        noise = noise_log[0]
        pi_t = actor_t.find(NS)
        obs.append(Ob("target-actor-evaluated-on-next-obs", pi_t is not None, site=self.site + "/net-inputs"))
        if pi_t is None:
            return obs
        nxt = [[smin(smax(val(pi_t, b, k) + smin(smax(val(noise, b, k), -noise_clip), noise_clip), self.LOW[k]), self.HIGH[k]) for k in range(2)] for b in range(B)]
        # the critics' target inputs: (next_obs, clipped noisy target action)
        qn = []
        for tnet in targs:
            ok = len(tnet.calls) == 1
            obs.append(Ob(f"{tnet.name}/called-once", ok))
            if not ok:
                return obs
            _, (s_in, a_in), out = tnet.calls[0]
            obs.append(Ob(f"{tnet.name}/input-is-next-obs-and-clip(pi_target(s')+clip(noise))",
                          conj(all_eq(s_in, NS), *[eq(a_in[b * 2 + k], nxt[b][k]) for b in range(B) for k in range(2)]), site=self.site + "/target-action"))
            qn.append(out)
        for ci, cnet in enumerate(crits):
            first = cnet.calls[0] if cnet.calls else None
            ok = first is not None and bool(all_eq(first[1][0], S)) if v.mode != "sym" else first is not None
            pred, y = crit.calls[ci]
            if first is None:
                obs.append(Ob(f"{cnet.name}/called", False))
                return obs
            obs.append(Ob(f"{cnet.name}/prediction-is-Q(s,a_taken)", conj(all_eq(first[1][0], S), *[eq(first[1][1][b * 2 + k], ac0[b][k]) for b in range(B) for k in range(2)],
                                                                        all_eq(pred, first[2])), site=self.site + "/prediction"))
            for b in range(B):
                r, d = val(R, b, 0), val(D, b, 0)
                vnext = smin(*[val(q, b, 0) for q in qn])
                obs.append(Ob(f"{cnet.name}/row{b}/target=r+gamma(1-d)min_i Qt_i(s',a')", eq(val(y, b, 0), r + gamma * (1 - d) * vnext)))
                obs.append(Ob(f"{cnet.name}/row{b}/done-transition-ignores-next-observation", disj(neg(eq(d, 1)), eq(val(y, b, 0), r))))
                if td3:
                    obs.append(Ob(f"{cnet.name}/row{b}/twin/target-uses-max-of-twin-critics", eq(val(y, b, 0), r + gamma * (1 - d) * smax(*[val(q, b, 0) for q in qn])), expect="sat"))
                else:
                    obs.append(Ob(f"{cnet.name}/row{b}/twin/target-without-(1-done)", eq(val(y, b, 0), r + gamma * vnext), expect="sat"))
        # schedule
        due = eq((counter + 1) % self.freq, 0)
        pairs = [(a, k.get("target", None)) if False else a for a, k in soft.calls]
        want = [(actor, actor_t)] + list(zip(crits, targs))
        got_ok = len(soft.calls) == len(want) and all(any(c[0][0] is n and c[0][1] is t for c in soft.calls) for n, t in want)
        none = len(soft.calls) == 0
        astep = sum(1 for c in aopt.calls if c == ("step",))
        obs.append(Ob("soft-updates-exactly-on-policy-delay-steps-for-every-(net,target)-pair", conj(disj(neg(due), got_ok), disj(due, none)), site=self.site + "/schedule"))
        obs.append(Ob("actor-step-exactly-on-policy-delay-steps", conj(disj(neg(due), astep == 1), disj(due, astep == 0)), site=self.site + "/schedule"))
        obs.append(Ob("learn-counter-advances-by-one", eq(new_counter, counter + 1), site=self.site + "/schedule"))
        for n, o in zip(copt_names, copts):
            obs.append(Ob(f"{n}/one-step", sum(1 for c in o.calls if c == ("step",)) == 1))
        return obs


class MALearn(Case):
    """MADDPG / MATD3: centralised critics over all agents' stacked observations / actions, agent i's own reward and done"""
    stubs = ACLearn.stubs
    assumptions = COMMON_ASSUME
    outside = ACLearn.outside

    def __init__(self, algo, B=2, N=2, freq=2):
        self.algo, self.B, self.N, self.freq = algo, B, N, freq
        self.cls = {"MADDPG": MADDPG, "MATD3": MATD3}[algo]
        self.functions = (self.cls.learn, getattr(self.cls, "_learn_individual", None) or self.cls.learn_individual, self.cls.stack_critic_observations)
        self.name = f"{algo.lower()}-learn-B{B}-N{N}" + (f"-freq{freq}" if algo == "MATD3" else "")
        self.site = f"{algo}.learn"
        self.bounds = {"batch": B, "agents": N, "action_dims": 1, "policy_freq": freq if algo == "MATD3" else None,
                       "symbolic": "per agent: rewards, dones, actions, all network outputs; gamma, learn counters"}
        self._agent = None

    def agent(self):
        if self._agent is None:
            ids = [f"ag_{i}" for i in range(self.N)]
            kw = dict(policy_freq=self.freq) if self.algo == "MATD3" else {}
            self._agent = self.cls([spaces.Box(-1, 1, (1,))] * self.N, [spaces.Box(-1, 1, (1,))] * self.N, agent_ids=ids, batch_size=self.B,
                                   net_config=TINY, **kw)
        return self._agent

    def run(self, v):
        B, N, td3 = self.B, self.N, self.algo == "MATD3"
        agent = self.agent()
        ids = list(agent.agent_ids)
        cn = ["critics_1", "critics_2"] if td3 else ["critics"]
        tn = ["critic_targets_1", "critic_targets_2"] if td3 else ["critic_targets"]
        on = ["critic_1_optimizers", "critic_2_optimizers"] if td3 else ["critic_optimizers"]
        require(agent, "actors", "actor_targets", "actor_optimizers", "criterion", "gamma", "soft_update", *cn, *tn, *on)
        S = {a: v.tensor(f"s_{a}", (B, 1)) for a in ids}
        NS = {a: v.tensor(f"ns_{a}", (B, 1)) for a in ids}
        AC = {a: v.tensor(f"a_{a}", (B, 1)) for a in ids}
        R = {a: v.tensor(f"r_{a}", (B, 1)) for a in ids}
        D = {a: v.tensor(f"d_{a}", (B, 1), "flag", dtype=v.float_dtype) for a in ids}
        gamma = v.real("gamma")
        actors = [FnNet(v, f"actor{i}", lambda x: (B, 1)) for i in range(N)]
        actor_ts = [FnNet(v, f"actor_target{i}", lambda x: (B, 1)) for i in range(N)]
        crits = [[FnNet(v, f"{n}{i}", lambda s, a: (B, 1)) for i in range(N)] for n in cn]
        targs = [[FnNet(v, f"{n}{i}", lambda s, a: (B, 1)) for i in range(N)] for n in tn]
        copts = [[Recorder() for _ in range(N)] for _ in on]
        aopts = [Recorder() for _ in range(N)]
        crit, soft = LossStub(v), Recorder()
        patches = [(agent, "actors", actors), (agent, "actor_targets", actor_ts), (agent, "actor_optimizers", aopts), (agent, "criterion", crit),
                   (agent, "gamma", gamma), (agent, "soft_update", soft)]
        patches += [(agent, n, c) for n, c in zip(cn, crits)] + [(agent, n, c) for n, c in zip(tn, targs)] + [(agent, n, c) for n, c in zip(on, copts)]
        counters = None
        if td3:
            counters = {a: v.int(f"learn_counter_{a}") for a in ids}
            for c in counters.values():
                v.assume(c >= 0, "learn_counter >= 0")
            patches.append((agent, "learn_counter", dict(counters)))
        if v.mode != "real":
            patches.append((au, "torch", ShimTorch()))
        with patched(*patches):
            agent.learn((S, AC, R, NS, D))
        obs = []
        per_agent = 2 if td3 else 1
        obs.append(Ob("criterion-called-per-agent-and-critic", len(crit.calls) == N * per_agent))
        if len(crit.calls) != N * per_agent:
            return obs
        st_all = [val(S[a], b, 0) for b in range(B) for a in ids]        # stacked along dim 1: row-major (b, agent)
        nst_all = [val(NS[a], b, 0) for b in range(B) for a in ids]
        ac_all = [val(AC[a], b, 0) for b in range(B) for a in ids]
        pit = []
        for i, a in enumerate(ids):
            o = actor_ts[i].find(NS[a])
            obs.append(Ob(f"{a}/target-actor-evaluated-on-its-own-next-obs", o is not None, site=self.site + "/net-inputs"))
            if o is None:
                return obs
            pit.append(o)
        nac_all = [val(pit[i], b, 0) for b in range(B) for i in range(N)]
        for i, a in enumerate(ids):
            qn = []
            for k in range(per_agent):
                tnet = targs[k][i]
                if len(tnet.calls) != 1:
                    obs.append(Ob(f"{tnet.name}/called-once", False))
                    return obs
                _, (s_in, a_in), out = tnet.calls[0]
                obs.append(Ob(f"{tnet.name}/centralised-input-is-all-agents'-next-obs-and-target-actions-in-agent-order",
                              conj(all_eq(s_in, nst_all), all_eq(a_in, nac_all)), site=self.site + "/critic-inputs"))
                qn.append(out)
            for k in range(per_agent):
                cnet = crits[k][i]
                first = cnet.calls[0] if cnet.calls else None
                if first is None:
                    obs.append(Ob(f"{cnet.name}/called", False))
                    return obs
                pred, y = crit.calls[i * per_agent + k]
                obs.append(Ob(f"{cnet.name}/prediction-is-Q_i(all obs, all actions taken)",
                              conj(all_eq(first[1][0], st_all), all_eq(first[1][1], ac_all), all_eq(pred, first[2])), site=self.site + "/prediction"))
                for b in range(B):
                    r, d = val(R[a], b, 0), val(D[a], b, 0)
                    vnext = smin(*[val(q, b, 0) for q in qn])
                    obs.append(Ob(f"{cnet.name}/row{b}/target=r_i+gamma(1-d_i)min Qt_i(next)", eq(val(y, b, 0), r + gamma * (1 - d) * vnext)))
                    obs.append(Ob(f"{cnet.name}/row{b}/done-transition-ignores-next-observation", disj(neg(eq(d, 1)), eq(val(y, b, 0), r))))
                    if N > 1:
                        other = ids[(i + 1) % N]
                        obs.append(Ob(f"{cnet.name}/row{b}/twin/uses-another-agent's-reward", eq(val(y, b, 0), val(R[other], b, 0) + gamma * (1 - d) * vnext), expect="sat"))
        # soft updates
        want = []
        for i in range(N):
            want.append((actors[i], actor_ts[i]))
            for k in range(per_agent):
                want.append((crits[k][i], targs[k][i]))
        got_ok = len(soft.calls) == len(want) and all(any(c[0][0] is n and c[0][1] is t for c in soft.calls) for n, t in want)
        if td3:
            # the repo keeps one counter per agent, all advanced together; soft update is keyed on the last agent's counter
            due = conj(*[eq((counters[a] + 1) % self.freq, 0) for a in ids])
            never = conj(*[neg(eq((counters[a] + 1) % self.freq, 0)) for a in ids])
            obs.append(Ob("soft-updates-for-every-(net,target)-pair-when-all-agents-are-on-a-policy-delay-step", disj(neg(due), got_ok), site=self.site + "/schedule"))
            obs.append(Ob("no-soft-update-off-the-policy-delay-steps", disj(neg(never), len(soft.calls) == 0), site=self.site + "/schedule"))
        else:
            obs.append(Ob("soft-update-for-every-(net,target)-pair-after-each-learn-step", got_ok, site=self.site + "/schedule"))
        return obs


# --------------------------------------------------------------------------- (ii) the real soft update on real networks


def module_tensors(mod):
    """every tensor a module holds and its forward can read: registered parameters, buffers, and plain tensors that were
    swapped into the modules' __dict__ (DQN's detached target weights live there)"""
    out = {}
    for mname, m in torch.nn.Module.named_modules(mod):
        seen = set()
        for n, p in m._parameters.items():
            if p is not None:
                out[f"{mname}.{n}"] = p
                seen.add(n)
        for n, t in m.__dict__.items():
            if isinstance(t, torch.Tensor) and n not in seen and not n.startswith("_"):
                out[f"{mname}.{n}"] = t
    return out


def net_pairs(agent, algo):
    if algo in ("DQN", "CQN", "RainbowDQN"):
        return [("actor", agent.actor, agent.actor_target)], (lambda n, t: agent.soft_update())
    if algo == "DDPG":
        return [("actor", agent.actor, agent.actor_target), ("critic", agent.critic, agent.critic_target)], agent.soft_update
    if algo == "TD3":
        return [("actor", agent.actor, agent.actor_target), ("critic_1", agent.critic_1, agent.critic_target_1),
                ("critic_2", agent.critic_2, agent.critic_target_2)], agent.soft_update
    if algo == "MADDPG":
        ps = []
        for i in range(len(agent.actors)):
            ps += [(f"actor{i}", agent.actors[i], agent.actor_targets[i]), (f"critic{i}", agent.critics[i], agent.critic_targets[i])]
        return ps, agent.soft_update
    if algo == "MATD3":
        ps = []
        for i in range(len(agent.actors)):
            ps += [(f"actor{i}", agent.actors[i], agent.actor_targets[i]), (f"critic1_{i}", agent.critics_1[i], agent.critic_targets_1[i]),
                   (f"critic2_{i}", agent.critics_2[i], agent.critic_targets_2[i])]
        return ps, agent.soft_update
    raise HarnessError(algo)


def build_agent(algo):
    box, disc = spaces.Box(-1, 1, (2,)), spaces.Discrete(2)
    if algo == "DQN":
        return DQN(box, disc, net_config=TINY)
    if algo == "CQN":
        return CQN(box, disc, net_config=TINY)
    if algo == "RainbowDQN":
        return RainbowDQN(box, disc, net_config={"encoder_config": {"hidden_size": [2]}, "head_config": {"hidden_size": [16]}},
                          num_atoms=3, v_min=-1.0, v_max=1.0)
    if algo == "DDPG":
        return DDPG(box, spaces.Box(-1, 1, (1,)), net_config=TINY, share_encoders=False)
    if algo == "TD3":
        return TD3(box, spaces.Box(-1, 1, (1,)), net_config=TINY, share_encoders=False)
    if algo == "MADDPG":
        return MADDPG([box] * 2, [spaces.Box(-1, 1, (1,))] * 2, agent_ids=["ag_0", "ag_1"], net_config=TINY)
    if algo == "MATD3":
        return MATD3([box] * 2, [spaces.Box(-1, 1, (1,))] * 2, agent_ids=["ag_0", "ag_1"], net_config=TINY)
    raise HarnessError(algo)


class SoftUpdateReal(Case):
    stubs = ("none: the agent's real networks; in-place writes of symbolic content into real tensors are captured in a shadow store keyed by data_ptr",)
    assumptions = ("0 < tau <= 1", "concrete seeded weights with online != target (online weights perturbed after construction / cloning)")
    outside = ("symbolic weights on real modules (weights are concrete here; symbolic weights are covered on stub networks)",
               "that learn() calls soft_update (covered by the *-learn cases)")

    def __init__(self, algo, variant="fresh"):
        self.algo, self.variant = algo, variant
        self.name = f"softupdate-real-{algo.lower()}-{variant}"
        self.site = f"{algo}.soft_update/real-networks"
        cls = {"DQN": DQN, "CQN": CQN, "RainbowDQN": RainbowDQN, "DDPG": DDPG, "TD3": TD3, "MADDPG": MADDPG, "MATD3": MATD3}[algo]
        self.functions = (cls.soft_update,) + ((DQN.init_hook,) if algo == "DQN" else ())
        self.bounds = {"algorithm": algo, "history": variant, "symbolic": "tau (every element of every target tensor is an obligation for all tau in (0,1])"}

    def run(self, v):
        torch.manual_seed(7)
        try:
            agent = build_agent(self.algo)
            if self.variant == "clone":
                agent = agent.clone()
            elif self.variant == "mutation":
                # directly after a (real) architecture mutation of the whole agent
                from agilerl.hpo.mutation import Mutations
                # the public entry point: Mutations.mutation() applies the mutation AND re-creates the shared (target) networks
                agent = Mutations(0, 1, 0.5, 0, 0, 0, rand_seed=5).mutation([agent])[0]
            elif self.variant == "checkpoint":
                # directly after a checkpoint round-trip into the same agent
                import os
                import tempfile
                d = tempfile.mkdtemp(prefix="verif_c08_", dir="/var/tmp")
                try:
                    path = os.path.join(d, "agent.pt")
                    agent.save_checkpoint(path)
                    agent.load_checkpoint(path)
                finally:
                    import shutil
                    shutil.rmtree(d, ignore_errors=True)
        except Exception as ex:   # noqa: BLE001
            raise HarnessError(f"could not build the {self.algo} agent: {type(ex).__name__}: {ex}")
        tau = v.real("tau")
        v.assume(conj(tau > 0, tau <= 1), "0 < tau <= 1")
        pairs, soft = net_pairs(agent, self.algo)
        require(agent, "tau")
        T.SHADOW.clear()
        gen = torch.Generator().manual_seed(11)
        if self.variant == "second-step":
            # an earlier soft update has already happened (concrete tau, real arithmetic): the step under test is the
            # SECOND consecutive one on the same agent
            with torch.no_grad():
                for name, net, tgt in pairs:
                    for p in net.parameters():
                        p.add_(torch.randint(1, 4, p.shape, generator=gen).to(p.dtype) / 4)
            with patched((agent, "tau", 0.25)):
                if self.algo in ("DQN", "CQN", "RainbowDQN"):
                    soft(None, None)
                else:
                    for name, net, tgt in pairs:
                        soft(net, tgt)
        before = {}
        with torch.no_grad():
            for name, net, tgt in pairs:
                for p in net.parameters():
                    p.add_(torch.randint(1, 4, p.shape, generator=gen).to(p.dtype) / 2)     # online != target, dyadic offsets
        for name, net, tgt in pairs:
            on, tg = module_tensors(net), module_tensors(tgt)
            before[name] = ({k: t.detach().clone() for k, t in on.items()}, {k: t.detach().clone() for k, t in tg.items()})
        obs = []
        with patched((agent, "tau", tau)):
            steps = 1      # one step from an arbitrary (seeded) state; the shadow store does not serve reads, so no chaining
            for _ in range(steps):
                if self.algo in ("DQN", "CQN", "RainbowDQN"):
                    soft(None, None)
                else:
                    for name, net, tgt in pairs:
                        soft(net, tgt)
        for name, net, tgt in pairs:
            on0, tg0 = before[name]
            on, tg = module_tensors(net), module_tensors(tgt)
            obs.append(Ob(f"{name}/target-holds-the-same-tensors-as-online", sorted(on0) == sorted(tg0) and sorted(tg) == sorted(tg0)))
            if sorted(on0) != sorted(tg0):
                continue
            for k in sorted(tg0):
                new = T.effective(tg[k]).reshape(-1)
                o = on0[k].reshape(-1).tolist()
                t0 = tg0[k].reshape(-1).tolist()
                conds = []
                for x, w, t in zip(new, o, t0):
                    exp = tau * w + (1 - tau) * t
                    if steps == 2:
                        exp = tau * w + (1 - tau) * exp
                    conds.append(eq(x if isinstance(x, Sym) else float(x), exp))
                obs.append(Ob(f"{name}/{k}/target=tau*online+(1-tau)*previous", conj(*conds)))
                now_on = T.effective(on[k]).reshape(-1)
                obs.append(Ob(f"{name}/{k}/online-untouched", conj(*[eq(x if isinstance(x, Sym) else float(x), w) for x, w in zip(now_on, o)])))
        T.SHADOW.clear()
        return obs


def cases(tier):
    cs = [QLearn("DQN", False), QLearn("DQN", True), QLearn("CQN", False), QLearn("CQN", True),
          ACLearn("DDPG"), ACLearn("TD3"), ACLearn("TD3", B=1, freq=3), ACLearn("DDPG", B=1, int_done=True), ACLearn("TD3", B=1, int_done=True), MALearn("MADDPG"), MALearn("MATD3")]
    cs += [SoftUpdateReal(a) for a in ("DQN", "CQN", "RainbowDQN", "DDPG", "TD3", "MADDPG", "MATD3")]
    cs += [SoftUpdateReal("DQN", "mutation"), SoftUpdateReal("DQN", "checkpoint"), SoftUpdateReal("DDPG", "mutation"), SoftUpdateReal("CQN", "checkpoint")]
    cs += [SoftUpdateReal("DQN", "clone"), SoftUpdateReal("TD3", "clone"), SoftUpdateReal("DQN", "second-step"), SoftUpdateReal("CQN", "second-step"),
           SoftUpdateReal("RainbowDQN", "second-step"), SoftUpdateReal("DDPG", "second-step")]
    # Rainbow's learn(): which batch, done flag and discount feed the 1-step / n-step losses (harness shared with C18)
    from .c18_rainbow import RainbowLearn, RainbowLoss
    cs += [RainbowLearn(2, 0, 1, per=False, nstep=True, combined=True), RainbowLearn(2, 0, 1, per=True, nstep=True, combined=False)]
    # ... and the loss itself: the categorical target is the projection of r + gamma^n (1 - d) z onto the support (C18's
    # harness; here the smallest support that has an interior atom and both edges)
    cs += [RainbowLoss(3, -2, 2)]
    if tier == "thorough":
        cs += [QLearn("DQN", True, B=3, A=3), QLearn("CQN", False, B=3, A=3), ACLearn("DDPG", B=3, freq=1), ACLearn("TD3", B=3, freq=2),
               MALearn("MADDPG", B=2, N=3), MALearn("MATD3", B=2, N=3, freq=3)]
        cs += [SoftUpdateReal(a, "clone") for a in ("CQN", "RainbowDQN", "DDPG", "MADDPG", "MATD3")]
        cs += [SoftUpdateReal(a, "second-step") for a in ("TD3", "MADDPG", "MATD3")]
        cs += [SoftUpdateReal(a, "mutation") for a in ("CQN", "RainbowDQN", "TD3", "MADDPG", "MATD3")]
        cs += [SoftUpdateReal(a, "checkpoint") for a in ("RainbowDQN", "DDPG", "TD3", "MADDPG")]
    return cs
